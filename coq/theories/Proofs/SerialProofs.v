(** C10 - proofs: decode . encode = identity up to observation, for every
    well-formed state, lifted to every state reachable by an operation chain. *)
From CG3 Require Import Lib.PyZ Lib.Val Lib.PySlice Model.View Spec.ViewSpec Proofs.ViewProofs Proofs.ViewSeqProofs.
From CG3 Require Import Model.Serial Spec.SerialSpec.
From CG3 Require Model.IndelMap Spec.IndelMapSpec Proofs.IndelMapOps Proofs.IndelMapSlice.
From CG3 Require Lib.Rose Model.Tree Model.TreeJson Proofs.NewickMoreProofs.
From CG3 Require Model.FeatureMap Model.AnnotDb Spec.AnnotDbSpec Proofs.AnnotDbProofs.
From Coq Require Import Permutation.

(** * dictionaries *)

Lemma zeqb_refl k : zeqb k k = true.
Proof. induction k as [|x k IH]; [reflexivity|]. cbn [zeqb]. rewrite Z.eqb_refl. exact IH. Qed.

Lemma zeqb_eq a b : zeqb a b = true <-> a = b.
Proof.
  revert b. induction a as [|x a IH]; intros [|y b]; cbn [zeqb]; try (split; [discriminate|discriminate]); [tauto|].
  rewrite andb_true_iff, Z.eqb_eq, IH. split; [intros [-> ->]; reflexivity|intros [= -> ->]; tauto].
Qed.

Lemma jget_here k v d : jget k ((k, v) :: d) = Some v.
Proof. cbn [jget]. now rewrite zeqb_refl. Qed.

Lemma jget_skip k k' v d : zeqb k k' = false -> jget k ((k', v) :: d) = jget k d.
Proof. intros H. cbn [jget]. now rewrite H. Qed.

Ltac jget_simpl :=
  repeat (rewrite jget_here || (rewrite jget_skip by (vm_compute; reflexivity))).

Lemma kind_of_label_of k : kind_of_label (label_of k) = Ok k.
Proof. destruct k; vm_compute; reflexivity. Qed.

Lemma get_ints_jints l : get_ints (Some (jints l)) = Ok l.
Proof.
  unfold get_ints, jints. induction l as [|x l IH]; [reflexivity|].
  cbn [map get_ints_list]. rewrite IH. reflexivity.
Qed.

Lemma info_roundtrip i : info_of_json (Some (info_to_json i)) = Ok i.
Proof. destruct i; reflexivity. Qed.

(** * the re-based view, explicitly *)

(** the view [SeqView(seq=segment, step=c, offset=off)] over a segment of length [L] *)
Definition rebased (L c off : Z) : view :=
  if 0 <? c then (if 0 <? L then mkV 0 L c L off else mkV 0 0 1 L off)
  else mkV (-1) (- L - 1) c L off.

Ltac split_ifs :=
  repeat match goal with
         | |- context [if ?b then _ else _] => let E := fresh "E" in destruct b eqn:E; try lia
         end.

Lemma mk_view_rebased L c off : 0 <= L -> c <> 0 ->
  mk_view L None None (Some c) off = Ok (rebased L c off).
Proof.
  intros HL Hc. rewrite (mk_view_step_unfold _ _ _ _ _ Hc). unfold rebased.
  destruct (Z_lt_le_dec 0 c) as [Hp|Hn].
  - replace (c >? 0) with true by lia. replace (0 <? c) with true by lia.
    unfold input_vals_pos_step. cbn [andb].
    replace (0 >? 0) with false by reflexivity. cbn [andb].
    destruct (Z_lt_le_dec 0 L) as [H1|H1].
    + replace (L <? 0) with false by lia. cbn [andb]. replace (0 <? 0) with false by reflexivity.
      replace (L >? 0) with true by lia. rewrite Z.min_id.
      replace (0 >=? L) with false by lia. replace (0 <? L) with true by lia. reflexivity.
    + assert (L = 0) by lia. subst L. reflexivity.
  - replace (c >? 0) with false by lia. replace (0 <? c) with false by lia.
    unfold input_vals_neg_step. rewrite Z.max_id.
    replace (-1 <? - L - 1) with false by lia. reflexivity.
Qed.

(** what [SeqView.replace] (twice) leaves: an empty reversed view becomes the forward empty view *)
Definition norm_rebased (L c off : Z) : view :=
  if (c <? 0) && (L =? 0) then mkV 0 0 1 0 off else rebased L c off.

Lemma copy_view_rebased L c off : 0 <= L -> c <> 0 ->
  copy_view FSeqView (rebased L c off) = Ok (norm_rebased L c off).
Proof.
  intros HL Hc. unfold copy_view, norm_rebased, rebased.
  destruct (Z_lt_le_dec 0 c) as [Hp|Hn].
  - replace (0 <? c) with true by lia. replace (c <? 0) with false by lia. cbn [andb].
    destruct (Z_lt_le_dec 0 L) as [H1|H1].
    + replace (0 <? L) with true by lia. cbn [start stop step seq_len offset].
      rewrite (mk_view_step_unfold _ _ _ _ _ Hc). replace (c >? 0) with true by lia.
      unfold input_vals_pos_step. replace (0 >? 0) with false by reflexivity. cbn [andb].
      replace (L <? 0) with false by lia. cbn [andb]. replace (0 <? 0) with false by reflexivity.
      replace (L >? 0) with true by lia. rewrite Z.min_id. replace (0 >=? L) with false by lia. reflexivity.
    + assert (L = 0) by lia. subst L. reflexivity.
  - replace (0 <? c) with false by lia. replace (c <? 0) with true by lia. cbn [andb].
    cbn [start stop step seq_len offset].
    rewrite (mk_view_step_unfold _ _ _ _ _ Hc). replace (c >? 0) with false by lia.
    unfold input_vals_neg_step.
    destruct (Z_lt_le_dec 0 L) as [H1|H1].
    + replace (L =? 0) with false by lia.
      replace (-1 >=? L) with false by lia. replace (-1 >=? 0) with false by reflexivity.
      replace (-1 <? - L) with false by lia.
      replace (- L - 1 >=? 0) with false by lia. rewrite Z.max_id.
      replace (-1 <? - L - 1) with false by lia. reflexivity.
    + assert (L = 0) by lia. subst L. reflexivity.
Qed.

Lemma copy_view_norm_rebased L c off : 0 <= L -> c <> 0 ->
  copy_view FSeqView (norm_rebased L c off) = Ok (norm_rebased L c off).
Proof.
  intros HL Hc. unfold norm_rebased at 1.
  destruct ((c <? 0) && (L =? 0)) eqn:E.
  - unfold norm_rebased. rewrite E. reflexivity.
  - rewrite (copy_view_rebased L c off HL Hc). reflexivity.
Qed.

(** the new-style decoder: the full view of the segment, then [[::c]] *)
Lemma getitem_full_step L c off : 0 < L -> c <> 0 ->
  getitem_slice FSeqView (mkV 0 L 1 L off) None None (Some c) = Ok (rebased L c off).
Proof.
  intros HL Hc. unfold getitem_slice.
  assert (Hv : vlen (mkV 0 L 1 L off) = L).
  { unfold vlen. cbn [start stop step]. rewrite Z.div_1_r. lia. }
  rewrite Hv. replace (L =? 0) with false by lia. cbn [opt_eqb].
  destruct (Z_lt_le_dec 0 c) as [Hp|Hn].
  - replace (c >? 0) with true by lia.
    unfold get_slice. rewrite Hv. cbn [step start stop seq_len offset]. replace (1 >? 0) with true by reflexivity.
    unfold get_forward_slice_from_forward. rewrite Hv. cbn [step start stop seq_len offset].
    replace (0 >=? 0) with true by reflexivity. replace (L >? L) with false by lia.
    replace (L >=? 0) with true by lia.
    replace (0 + 0 * 1) with 0 by ring. replace (0 + L * 1) with L by ring.
    replace (0 <? 0) with false by reflexivity. replace (L <? 0) with false by lia. cbn [orb].
    replace (L <? 0) with false by lia. replace (0 >? L) with false by lia.
    rewrite Z.min_id. unfold rebuild. cbn [step start stop seq_len offset]. rewrite Z.mul_1_l.
    rewrite (mk_view_step_unfold _ _ _ _ _ Hc). replace (c >? 0) with true by lia.
    unfold input_vals_pos_step. replace (0 >? 0) with false by reflexivity. cbn [andb].
    replace (L <? 0) with false by lia. cbn [andb]. replace (0 <? 0) with false by reflexivity.
    replace (L >? 0) with true by lia. rewrite Z.min_id. replace (0 >=? L) with false by lia.
    unfold rebased. replace (0 <? c) with true by lia. replace (0 <? L) with true by lia. reflexivity.
  - replace (c >? 0) with false by lia. replace (c <? 0) with true by lia.
    unfold get_reverse_slice. rewrite Hv. cbn [step start stop seq_len offset].
    replace (1 <? 0) with false by reflexivity. replace (1 >? 0) with true by reflexivity.
    unfold get_reverse_slice_from_forward. rewrite Hv. cbn [step start stop seq_len offset].
    replace (-1 >=? L) with false by lia. replace (-1 >=? 0) with false by reflexivity.
    replace (- L - 1 >=? L) with false by lia. replace (- L - 1 >=? 0) with false by lia.
    replace (0 + L * 1 + -1 * 1 - L) with (-1) by ring.
    replace (0 + L * 1 + (- L - 1) * 1 - L) with (- L - 1) by ring.
    replace (-1 >=? 0) with false by reflexivity. replace (- L - 1 >=? 0) with false by lia. cbn [orb].
    replace (0 - L - 1) with (- L - 1) by ring. rewrite Z.max_id.
    unfold rebuild. cbn [step start stop seq_len offset]. rewrite Z.mul_1_l.
    rewrite (mk_view_step_unfold _ _ _ _ _ Hc). replace (c >? 0) with false by lia.
    unfold input_vals_neg_step.
    replace (-1 >=? L) with false by lia. replace (-1 >=? 0) with false by reflexivity.
    replace (-1 <? - L) with false by lia.
    replace (- L - 1 >=? 0) with false by lia. rewrite Z.max_id.
    replace (-1 <? - L - 1) with false by lia.
    unfold rebased. replace (0 <? c) with false by lia. reflexivity.
Qed.

(** * what the re-based view shows *)

Lemma value_off {A} s e c n off off' (p : list A) : value (mkV s e c n off) p = value (mkV s e c n off') p.
Proof. reflexivity. Qed.

Lemma rebased_value_off {A} L c off (sg : list A) : value (rebased L c off) sg = value (rebased L c 0) sg.
Proof. unfold rebased. split_ifs; reflexivity. Qed.

Lemma rebased_vlen_off L c off : vlen (rebased L c off) = vlen (rebased L c 0).
Proof. unfold rebased. split_ifs; reflexivity. Qed.

Lemma rebased_pstart L c off : 0 <= L -> c <> 0 -> parent_start (rebased L c off) = off.
Proof.
  intros HL Hc. unfold rebased, parent_start, is_reversed.
  split_ifs; cbn [start stop step seq_len offset] in *; lia.
Qed.

Lemma rebased_pstop L c off : 0 <= L -> c <> 0 -> parent_stop (rebased L c off) = off + L.
Proof.
  intros HL Hc. unfold rebased, parent_stop, is_reversed.
  split_ifs; cbn [start stop step seq_len offset] in *; lia.
Qed.

Lemma rebased_reversed L c off : c <> 0 -> is_reversed (rebased L c off) = (c <? 0).
Proof.
  intros Hc. unfold rebased, is_reversed. split_ifs; cbn [step] in *; lia.
Qed.

Lemma rich_seq_empty {A} v (p : list A) : WF v -> vlen v = 0 -> rich_seq v p = [].
Proof.
  intros Hwf H0. pose proof (proj1 (wf_empty_iff v Hwf) H0) as Hse. pose proof (wf_step_nz v Hwf) as Hnz.
  unfold rich_seq, rich_bounds. rewrite Hse. destruct (is_reversed v); apply py_slice_same_bounds; lia.
Qed.

Lemma pstop_minus_pstart v : parent_stop v - parent_start v = seg_hi v - seg_lo v.
Proof. unfold seg_hi, seg_lo. ring. Qed.

Lemma vlen_rebased_0 c off : vlen (rebased 0 c off) = 0.
Proof.
  unfold rebased. destruct (0 <? c); [reflexivity|].
  unfold vlen. cbn [start stop step]. replace (-1 - (- 0 - 1)) with 0 by ring. now rewrite Zdiv_0_l.
Qed.

(** the facts every decoder relies on *)
Lemma rebased_facts v (p : list Z) : WF v -> Fits v p ->
  let sg := rich_seq v p in let L := zlen sg in let c := step v in
  0 <= L /\ c <> 0 /\ L = parent_stop v - parent_start v /\ (vlen v = 0 -> L = 0) /\ (0 < vlen v -> 0 < L) /\
  forall off, value (rebased L c off) sg = value v p /\ vlen (rebased L c off) = vlen v.
Proof.
  intros Hwf Hfit sg L c. pose proof (wf_step_nz v Hwf) as Hnz.
  split; [apply zlen_nonneg|]. split; [exact Hnz|].
  destruct (Z.eq_dec (vlen v) 0) as [H0|Hne].
  - (* empty view *)
    assert (Hsg : sg = []) by (apply rich_seq_empty; assumption).
    assert (HL : L = 0) by (unfold L; rewrite Hsg; reflexivity).
    pose proof (proj1 (wf_empty_iff v Hwf) H0) as Hse.
    split.
    { rewrite HL. unfold parent_stop, parent_start. rewrite Hse. destruct (is_reversed v); ring. }
    split; [intros _; exact HL|]. split; [lia|].
    intros off. rewrite HL, Hsg. split.
    + rewrite (value_empty v p Hwf H0). unfold value. apply py_slice_nil.
    + rewrite H0. apply vlen_rebased_0.
  - destruct Hfit as [H0|Hp]; [contradiction|].
    pose proof (vlen_nonneg v) as Hvn.
    pose proof (copy_sliced_lemma false v p Hwf Hp) as Hc.
    unfold copy_sliced in Hc. fold sg in Hc. fold L in Hc.
    rewrite (mk_view_rebased L (step v) 0 (zlen_nonneg sg) Hnz) in Hc.
    destruct Hc as (v' & Hv' & Hwf' & Hz & Hval & Hlen & Hoff & Hb). injection Hv' as <-.
    assert (HLeq : L = parent_stop v - parent_start v).
    { rewrite pstop_minus_pstart. unfold L, sg. rewrite rich_seq_eq.
      pose proof (seg_bounds v Hwf) as Hbd. rewrite <- Hp in Hbd. apply zlen_seg; tauto. }
    split; [exact HLeq|]. split; [intros H; contradiction|].
    split.
    { intros HL0. destruct (Hb HL0) as (Hlo & Hhi & _).
      destruct (Z.eq_dec L 0) as [E|E]; [|pose proof (zlen_nonneg sg); fold L in H; lia].
      exfalso. revert Hlen. fold c. rewrite E, vlen_rebased_0. lia. }
    intros off. fold c. rewrite rebased_value_off, rebased_vlen_off. split; [exact Hval|exact Hlen].
Qed.

Lemma obs_strand_eq w v : vlen w = vlen v -> (0 < vlen v -> is_reversed w = is_reversed v) -> obs_strand w = obs_strand v.
Proof.
  intros Hl Hr. unfold obs_strand. rewrite Hl. destruct (vlen v =? 0) eqn:E; [reflexivity|].
  rewrite Hr; [reflexivity|]. pose proof (vlen_nonneg v). lia.
Qed.

(** a view that shows the same string, length, coordinates and (when non-empty) direction is observed equal *)
Lemma observe_core_eq w sg' v p k b b' : WF v ->
  value w sg' = value v p -> vlen w = vlen v -> parent_start w = parent_start v -> parent_stop w = parent_stop v ->
  (0 < vlen v -> is_reversed w = is_reversed v) ->
  observe_core (mkS w sg' k b) = observe_core (mkS v p k b').
Proof.
  intros Hwf Hval Hlen Hps Hpe Hrev. unfold observe_core. cbn [sv parent skind].
  rewrite Hlen, Hps, Hpe, (obs_strand_eq w v Hlen Hrev). f_equal. f_equal. f_equal.
  unfold realise. cbn [sv parent skind]. rewrite Hval.
  destruct (Z.eq_dec (vlen v) 0) as [H0|Hne].
  - rewrite (value_empty v p Hwf H0). destruct (is_reversed w), (is_reversed v); reflexivity.
  - rewrite Hrev; [reflexivity|]. pose proof (vlen_nonneg v). lia.
Qed.

(** * sequences *)

Lemma get_opt_str_jopt o : get_opt_str (Some (jopt_str o)) = Ok o.
Proof. destruct o; reflexivity. Qed.

Lemma gather_In {A} (l : list A) idx x : In x (gather l idx) -> In x l.
Proof.
  induction idx as [|i idx IH]; [intros []|].
  rewrite gather_cons, in_app_iff. intros [H|H]; [|exact (IH H)].
  unfold zget in H. destruct (i <? 0); [destruct H|].
  destruct (nth_error l (Z.to_nat i)) as [y|] eqn:E; [|destruct H].
  destruct H as [<-|[]]. exact (nth_error_In _ _ E).
Qed.

Lemma py_slice_In {A} (l : list A) a b c x : In x (py_slice l a b c) -> In x l.
Proof. rewrite py_slice_unfold. apply gather_In. Qed.

Lemma clean_segment k v p : clean k p -> map (coerce_char k) (rich_seq v p) = rich_seq v p.
Proof.
  intros Hc. rewrite <- (map_id (rich_seq v p)) at 2. apply map_ext_in. intros x Hx.
  unfold clean in Hc. rewrite Forall_forall in Hc. apply Hc.
  unfold rich_seq in Hx. destruct (rich_bounds v) as [lo hi]. exact (py_slice_In _ _ _ _ _ Hx).
Qed.

(** the old-style view decoder on what the view encoder writes *)
Lemma view_decode_old st v (p : list Z) sid d : WF v -> view_to_dict st v p sid = JObj d ->
  view_of_dict_old d = Ok (rebased (zlen (rich_seq v p)) (step v) 0, rich_seq v p, sid).
Proof.
  intros Hwf Hd. unfold view_to_dict in Hd. injection Hd as <-.
  unfold view_of_dict_old. jget_simpl. cbn [get_obj bind]. jget_simpl. cbn [get_str bind].
  rewrite get_opt_str_jopt. cbn [bind jget get_int_default].
  rewrite (mk_view_rebased _ _ 0 (zlen_nonneg _) (wf_step_nz v Hwf)). reflexivity.
Qed.

Lemma with_off_rebased L c off ao : with_off (rebased L c off) ao = rebased L c ao.
Proof. unfold rebased. split_ifs; reflexivity. Qed.

Lemma with_off_norm_rebased L c off ao : with_off (norm_rebased L c off) ao = norm_rebased L c ao.
Proof. unfold norm_rebased. destruct ((c <? 0) && (L =? 0)); [reflexivity|apply with_off_rebased]. Qed.

Lemma hand_over_zero w ao : offset w = 0 -> hand_over_offset w ao = Ok (with_off w ao).
Proof.
  intros H. unfold hand_over_offset. rewrite H. cbn [Z.eqb negb]. rewrite andb_false_r.
  destruct (ao =? 0) eqn:E; cbn [negb]; [|reflexivity].
  assert (ao = 0) by lia. subst ao. destruct w; cbn in H; subst; reflexivity.
Qed.

Lemma offset_rebased L c off : offset (rebased L c off) = off.
Proof. unfold rebased. split_ifs; reflexivity. Qed.

Lemma offset_norm_rebased L c off : offset (norm_rebased L c off) = off.
Proof. unfold norm_rebased. destruct ((c <? 0) && (L =? 0)); [reflexivity|apply offset_rebased]. Qed.

(** [w] shows what [v] shows, re-based at absolute offset [ao] *)
Definition good_rebase (v : view) (p : list Z) (ao : Z) (w : view) (sg : list Z) : Prop :=
  value w sg = value v p /\ vlen w = vlen v /\ parent_start w = ao /\
  parent_stop w = ao + (parent_stop v - parent_start v) /\ (0 < vlen v -> is_reversed w = is_reversed v).

Lemma good_rebased v p ao : WF v -> Fits v p ->
  good_rebase v p ao (rebased (zlen (rich_seq v p)) (step v) ao) (rich_seq v p).
Proof.
  intros Hwf Hfit. destruct (rebased_facts v p Hwf Hfit) as (HL & Hc & HLeq & H0 & Hpos & Hall).
  cbv zeta in *. destruct (Hall ao) as [Hv Hl].
  split; [exact Hv|]. split; [exact Hl|]. split; [apply rebased_pstart; assumption|].
  split; [rewrite <- HLeq; apply rebased_pstop; assumption|].
  intros _. rewrite rebased_reversed by assumption. reflexivity.
Qed.

Lemma good_empty v p ao w : WF v -> Fits v p -> zlen (rich_seq v p) = 0 ->
  vlen w = 0 -> parent_start w = ao -> parent_stop w = ao ->
  good_rebase v p ao w (rich_seq v p).
Proof.
  intros Hwf Hfit HL0 Hw Hs He. destruct (rebased_facts v p Hwf Hfit) as (HL & Hc & HLeq & H0 & Hpos & Hall).
  cbv zeta in *. pose proof (vlen_nonneg v) as Hvn.
  assert (Hv0 : vlen v = 0).
  { destruct (Z.eq_dec (vlen v) 0) as [E|E]; [exact E|]. assert (0 < vlen v) as Hp by lia. specialize (Hpos Hp). lia. }
  split.
  { rewrite (zlen_0_nil _ HL0), (value_empty v p Hwf Hv0). unfold value. apply py_slice_nil. }
  split; [congruence|]. split; [exact Hs|]. split; [lia|]. intros; lia.
Qed.

Lemma good_norm_rebased v p ao : WF v -> Fits v p ->
  good_rebase v p ao (norm_rebased (zlen (rich_seq v p)) (step v) ao) (rich_seq v p).
Proof.
  intros Hwf Hfit. unfold norm_rebased.
  destruct ((step v <? 0) && (zlen (rich_seq v p) =? 0)) eqn:E; [|apply good_rebased; assumption].
  apply good_empty; [assumption|assumption|lia|reflexivity| |];
    unfold parent_start, parent_stop, is_reversed; cbn [start stop step seq_len offset]; cbn; lia.
Qed.

Lemma observe_of_good v p k hid w sg b : WF v -> good_rebase v p (parent_start v) w sg ->
  observe_core (mkS w sg k b) = observe_core (mkS v p k hid).
Proof.
  intros Hwf (Hv & Hl & Hs & He & Hr). apply observe_core_eq; try assumption. lia.
Qed.

(** OLD STYLE: [deserialise_seq (seq.to_rich_dict())] is observed equal to [seq] *)
Lemma seq_roundtrip_old_lemma s d : seq_ok s -> seq_to_dict SOld s = JObj d ->
  exists s', seq_of_dict_old d = Ok s' /\ observe_seq s' = observe_seq s.
Proof.
  intros [[Hwf Hfit] Hclean] Hd. unfold seq_to_dict in Hd. injection Hd as <-.
  destruct s as [[v p k hid] nm inf]. cbn [s_core s_name s_info sv parent skind] in *.
  unfold seq_of_dict_old. jget_simpl. cbn [get_str bind]. rewrite kind_of_label_of. cbn [bind].
  destruct (view_to_dict SOld v p nm) as [| | | | |vd|] eqn:Evd; try discriminate.
  cbn [get_obj bind]. rewrite (view_decode_old SOld v p nm vd Hwf Evd). cbn [bind].
  rewrite get_opt_str_jopt. cbn [bind]. rewrite info_roundtrip. cbn [bind get_int_default].
  set (L := zlen (rich_seq v p)). set (ao := parent_start v).
  assert (HL : 0 <= L) by apply zlen_nonneg. pose proof (wf_step_nz v Hwf) as Hc.
  destruct k; cbn [coerce_view].
  - (* DNA *)
    rewrite (copy_view_rebased L (step v) 0 HL Hc). cbn [bind].
    rewrite (copy_view_norm_rebased L (step v) 0 HL Hc). cbn [bind].
    rewrite (hand_over_zero _ ao (offset_norm_rebased _ _ _)). cbn [bind].
    eexists. split; [reflexivity|]. unfold observe_seq. cbn [s_core s_name s_info]. f_equal. f_equal.
    rewrite with_off_norm_rebased, (clean_segment KDna v p Hclean).
    apply observe_of_good; [exact Hwf|]. apply good_norm_rebased; assumption.
  - (* RNA *)
    rewrite (copy_view_rebased L (step v) 0 HL Hc). cbn [bind].
    rewrite (copy_view_norm_rebased L (step v) 0 HL Hc). cbn [bind].
    rewrite (hand_over_zero _ ao (offset_norm_rebased _ _ _)). cbn [bind].
    eexists. split; [reflexivity|]. unfold observe_seq. cbn [s_core s_name s_info]. f_equal. f_equal.
    rewrite with_off_norm_rebased, (clean_segment KRna v p Hclean).
    apply observe_of_good; [exact Hwf|]. apply good_norm_rebased; assumption.
  - (* any other moltype: no coercion *)
    cbn [bind]. rewrite (hand_over_zero _ ao (offset_rebased _ _ _)). cbn [bind].
    eexists. split; [reflexivity|]. unfold observe_seq. cbn [s_core s_name s_info]. f_equal. f_equal.
    rewrite with_off_rebased.
    apply observe_of_good; [exact Hwf|]. apply good_rebased; assumption.
Qed.

Lemma pstart_fwd0 L ao : parent_start (mkV 0 0 1 L ao) = ao.
Proof. unfold parent_start, is_reversed. cbn. lia. Qed.
Lemma pstop_fwd0 L ao : parent_stop (mkV 0 0 1 L ao) = ao.
Proof. unfold parent_stop, is_reversed. cbn. lia. Qed.

(** NEW STYLE: [Sequence.from_rich_dict (seq.to_rich_dict())] is observed equal to [seq] *)
Lemma seq_roundtrip_new_lemma s d : seq_ok s -> seq_to_dict SNew s = JObj d ->
  exists s', seq_of_dict_new d = Ok s' /\ observe_seq s' = observe_seq s.
Proof.
  intros [[Hwf Hfit] Hclean] Hd. unfold seq_to_dict in Hd. injection Hd as <-.
  destruct s as [[v p k hid] nm inf]. cbn [s_core s_name s_info sv parent skind] in *.
  unfold seq_of_dict_new. jget_simpl. cbn [get_str bind]. rewrite kind_of_label_of. cbn [bind].
  unfold view_to_dict. cbn [get_obj bind]. jget_simpl. cbn [get_obj bind]. jget_simpl. cbn [get_str get_int bind].
  rewrite get_opt_str_jopt. cbn [bind]. rewrite info_roundtrip. cbn [bind get_int_default].
  set (L := zlen (rich_seq v p)). set (ao := parent_start v).
  assert (HL : 0 <= L) by apply zlen_nonneg. pose proof (wf_step_nz v Hwf) as Hc.
  rewrite mk_view_none_step, (mk_view_rebased L 1 ao HL ltac:(lia)). cbn [bind].
  unfold rebased at 1. replace (0 <? 1) with true by reflexivity.
  destruct (Z_lt_le_dec 0 L) as [Hp|Hz].
  - replace (0 <? L) with true by lia. rewrite (getitem_full_step L (step v) ao Hp Hc). cbn [bind].
    eexists. split; [reflexivity|]. unfold observe_seq. cbn [s_core s_name s_info]. f_equal. f_equal.
    apply observe_of_good; [exact Hwf|]. apply good_rebased; assumption.
  - assert (L = 0) by lia. replace (0 <? L) with false by lia.
    replace (getitem_slice FSeqView (mkV 0 0 1 L ao) None None (Some (step v))) with (Ok (mkV 0 0 1 L ao)).
    2:{ unfold getitem_slice. replace (vlen (mkV 0 0 1 L ao) =? 0) with true by reflexivity. reflexivity. }
    cbn [bind]. eexists. split; [reflexivity|]. unfold observe_seq. cbn [s_core s_name s_info]. f_equal. f_equal.
    apply observe_of_good; [exact Hwf|].
    apply good_empty; [assumption|assumption|exact H|reflexivity|apply pstart_fwd0|apply pstop_fwd0].
Qed.

Lemma seq_roundtrip_lemma st s d : seq_ok s -> seq_to_dict st s = JObj d ->
  exists s', seq_of_dict st d = Ok s' /\ observe_seq s' = observe_seq s.
Proof. destruct st; [apply seq_roundtrip_old_lemma|apply seq_roundtrip_new_lemma]. Qed.

(** the bare old-style view through the registry's [deserialise_seqview] *)
Lemma view_roundtrip_lemma v p sid d : WF v -> Fits v p -> view_to_dict SOld v p sid = JObj d ->
  exists v' sg, view_of_dict_old d = Ok (v', sg, sid) /\ offset v' = 0 /\ observe_view v' sg = observe_view v p.
Proof.
  intros Hwf Hfit Hd. rewrite (view_decode_old SOld v p sid d Hwf Hd).
  eexists. eexists. split; [reflexivity|]. split; [apply offset_rebased|].
  destruct (good_rebased v p 0 Hwf Hfit) as (Hv & Hl & Hs & He & Hr).
  unfold observe_view. rewrite Hv, Hl, Hs, He, (obs_strand_eq _ v Hl Hr).
  f_equal. f_equal. ring.
Qed.

(** * indel maps, aligned rows, alignments *)

Lemma imap_roundtrip_lemma m d : IndelMapSpec.WF m -> imap_to_dict m = JObj d -> imap_of_dict d = Ok m.
Proof.
  intros [Hn Hw] Hd. unfold imap_to_dict in Hd. injection Hd as <-.
  unfold imap_of_dict. jget_simpl. rewrite !get_ints_jints. cbn [bind get_int_default].
  rewrite (IndelMapOps.post_init_wf _ _ _ _ _ Hw). destruct m; reflexivity.
Qed.

(** every gap layout: the map parsed out of any gapped string, and any slice of it *)
Lemma imap_roundtrip_layout (k : list bool) d : imap_to_dict (IndelMap.from_mask k) = JObj d ->
  imap_of_dict d = Ok (IndelMap.from_mask k).
Proof. apply imap_roundtrip_lemma. apply IndelMapOps.wf_from_mask. Qed.

Lemma imap_roundtrip_slice m a b : IndelMapSpec.WF m -> 0 <= a -> a <= b -> b <= IndelMap.len m ->
  exists m', IndelMap.getitem_slice m (Some a) (Some b) = IndelMap.Ok m' /\
    IndelMapSpec.abs m' = IndelMapSpec.msub (IndelMapSpec.abs m) a b /\
    forall d, imap_to_dict m' = JObj d -> imap_of_dict d = Ok m'.
Proof.
  intros Hwf Ha Hab Hb. destruct (IndelMapSlice.slice_spec m a b Hwf Ha Hab Hb) as (m' & Hs & Hwf' & Habs).
  exists m'. split; [exact Hs|]. split; [exact Habs|]. intros d. apply imap_roundtrip_lemma. exact Hwf'.
Qed.

Lemma aligned_roundtrip_lemma a d : aligned_ok a -> aligned_to_dict a = JObj d ->
  exists a', aligned_of_dict d = Ok a' /\ a_map a' = a_map a /\ observe_seq (a_seq a') = observe_seq (a_seq a) /\
    observe_aligned a' = observe_aligned a.
Proof.
  intros [Hm Hs] Hd. unfold aligned_to_dict in Hd. injection Hd as <-.
  unfold aligned_of_dict. jget_simpl.
  destruct (imap_to_dict (a_map a)) as [| | | | |md|] eqn:Em; try discriminate.
  cbn [get_obj bind]. rewrite (imap_roundtrip_lemma _ md Hm Em). cbn [bind].
  destruct (seq_to_dict SOld (a_seq a)) as [| | | | |sd|] eqn:Es; try discriminate.
  cbn [get_obj bind]. destruct (seq_roundtrip_old_lemma _ sd Hs Es) as (s' & Hdec & Hobs).
  rewrite Hdec. cbn [bind]. eexists. split; [reflexivity|]. cbn [a_map a_seq].
  split; [reflexivity|]. split; [exact Hobs|].
  unfold observe_aligned. cbn [a_map a_seq]. rewrite Hobs. f_equal. f_equal.
  unfold observe_seq, observe_core in Hobs. congruence.
Qed.

Lemma rows_roundtrip rows : Forall aligned_ok rows ->
  exists rows', rows_of_dicts (map (fun a => (row_key a, aligned_to_dict a)) rows) = Ok rows' /\
    map observe_aligned rows' = map observe_aligned rows.
Proof.
  induction 1 as [|a rows Ha _ IH]; [exists []; split; reflexivity|].
  destruct IH as (rows' & Hr & Ho). cbn [map rows_of_dicts].
  destruct (aligned_to_dict a) as [| | | | |rd|] eqn:Ea; try discriminate.
  destruct (aligned_roundtrip_lemma a rd Ha Ea) as (a' & Hdec & _ & _ & Hobs).
  rewrite Hdec. cbn [bind]. rewrite Hr. cbn [bind]. exists (a' :: rows'). split; [reflexivity|].
  cbn [map]. now rewrite Hobs, Ho.
Qed.

Lemma alignment_roundtrip_lemma k inf rows d : Forall aligned_ok rows -> alignment_to_dict k inf rows = JObj d ->
  exists rows', alignment_of_dict d = Ok (k, inf, rows') /\ map observe_aligned rows' = map observe_aligned rows.
Proof.
  intros Hok Hd. unfold alignment_to_dict in Hd. injection Hd as <-.
  unfold alignment_of_dict. jget_simpl. cbn [get_str bind]. rewrite kind_of_label_of. cbn [bind get_obj].
  destruct (rows_roundtrip rows Hok) as (rows' & Hr & Ho). rewrite Hr. cbn [bind].
  rewrite info_roundtrip. cbn [bind]. exists rows'. split; [reflexivity|exact Ho].
Qed.

(** * the registry *)

Lemma registry_resolves_lemma : forall t f, In (t, f) expected_dispatch -> dispatch registry t = Some f.
Proof.
  assert (H : forallb (fun tf => match dispatch registry (fst tf), snd tf with
                                 | Some DTabular, DTabular | Some DSeqView, DSeqView | Some DNotCompleted, DNotCompleted
                                 | Some DResult, DResult | Some DMolType, DMolType | Some DAlphabet, DAlphabet
                                 | Some DAligned, DAligned | Some DSeq, DSeq | Some DSeqCollections, DSeqCollections
                                 | Some DTree, DTree | Some DSubstitutionModel, DSubstitutionModel
                                 | Some DLikelihoodFunction, DLikelihoodFunction | Some DIndelMap, DIndelMap
                                 | Some DFeatureMap, DFeatureMap | Some DBasicDb, DBasicDb | Some DGffDb, DGffDb | Some DGbDb, DGbDb
                                 | Some DCharAlphabet, DCharAlphabet | Some DKmerAlphabet, DKmerAlphabet
                                 | Some DCodonAlphabet, DCodonAlphabet | Some DNewSequence, DNewSequence
                                 | Some DNewProteinSequence, DNewProteinSequence | Some DNewByteSequence, DNewByteSequence
                                 | Some DNewProteinWithStopSequence, DNewProteinWithStopSequence
                                 | Some DNewDnaSequence, DNewDnaSequence | Some DNewRnaSequence, DNewRnaSequence
                                 | Some DSeqsData, DSeqsData | Some DNewSequenceCollection, DNewSequenceCollection => true
                                 | _, _ => false end) expected_dispatch = true) by (vm_compute; reflexivity).
  rewrite forallb_forall in H. intros t f Hin. specialize (H (t, f) Hin). cbn [fst snd] in H.
  destruct (dispatch registry t) as [g|]; [|discriminate]. destruct g, f; try discriminate; reflexivity.
Qed.

(** the loop returns the first registered key that occurs in the type string *)
Lemma dispatch_first_match_lemma reg t f : dispatch reg t = Some f ->
  exists pre k post, reg = pre ++ (k, f) :: post /\ is_infix k t = true /\
    Forall (fun kf => is_infix (fst kf) t = false) pre.
Proof.
  induction reg as [|[k g] reg IH]; [discriminate|]. cbn [dispatch].
  destruct (is_infix k t) eqn:E.
  - intros [= <-]. exists [], k, reg. split; [reflexivity|]. split; [exact E|constructor].
  - intros H. destruct (IH H) as (pre & k' & post & -> & Hk & Hpre).
    exists ((k, g) :: pre), k', post. split; [reflexivity|]. split; [exact Hk|]. constructor; [exact E|exact Hpre].
Qed.

(** registering more decoders later never changes what an already resolved type string resolves to *)
Lemma dispatch_app_lemma reg extra t f : dispatch reg t = Some f -> dispatch (reg ++ extra) t = Some f.
Proof.
  induction reg as [|[k g] reg IH]; [discriminate|]. cbn [dispatch app].
  destruct (is_infix k t); [trivial|exact IH].
Qed.

(** ... but the ORDER of registration matters: the key of [deserialise_seq] occurs in the type string of a
    [SeqView]; registered before [deserialise_seqview] it would capture it *)
Lemma dispatch_order_sensitive_lemma :
  exists reg reg' t, Permutation reg reg' /\ (forall k f, In (k, f) reg -> In (k, f) registry) /\
    dispatch reg t <> dispatch reg' t.
Proof.
  exists [ (ty_seqview SOld, DSeqView); (key_seq_module, DSeq) ],
         [ (key_seq_module, DSeq); (ty_seqview SOld, DSeqView) ],
         (ty_seqview SOld).
  split; [apply perm_swap|]. split.
  - intros k f [[= <- <-]|[[= <- <-]|[]]]; vm_compute; tauto.
  - vm_compute. discriminate.
Qed.

(** * every reachable state is covered *)

(** upper-case spelling: no lower-case t/u (what [make_seq] produces unless [preserve_case] is asked for) *)
Definition no_lower (p : list Z) : Prop := Forall (fun x => x <> 116 /\ x <> 117) p.

Definition inv (s : pseq) : Prop := SWF s /\ clean (skind s) (parent s) /\ no_lower (parent s).

Lemma comp_no_lower k c : c <> 116 /\ c <> 117 -> comp k c <> 116 /\ comp k c <> 117.
Proof.
  intros [H1 H2]. unfold comp, comp_common. destruct k; split_ifs; lia.
Qed.

Lemma Forall_value {A} (P : A -> Prop) v (p : list A) : Forall P p -> Forall P (value v p).
Proof.
  rewrite !Forall_forall. intros H x Hx. apply H. unfold value in Hx. exact (py_slice_In _ _ _ _ _ Hx).
Qed.

Lemma no_lower_realise s : no_lower (parent s) -> no_lower (realise s).
Proof.
  intros H. unfold realise. pose proof (Forall_value _ (sv s) (parent s) H) as Hv.
  destruct (is_reversed (sv s)); [|exact Hv].
  unfold no_lower in *. rewrite Forall_forall in *. intros x Hx. apply in_map_iff in Hx.
  destruct Hx as (y & <- & Hy). apply comp_no_lower. exact (Hv y Hy).
Qed.

Lemma fresh_parent k p' s' : fresh k p' = Ok s' -> parent s' = p' /\ skind s' = k.
Proof.
  unfold fresh, with_view. destruct (mk_view (zlen p') None None None 0); [|discriminate].
  intros [= <-]. split; reflexivity.
Qed.

Lemma inv_fresh_rna src s' : no_lower src -> fresh KRna (map t2u src) = Ok s' -> SWF s' -> inv s'.
Proof.
  intros Hn Hf Hs. destruct (fresh_parent _ _ _ Hf) as [Hp Hk]. split; [exact Hs|]. rewrite Hp, Hk.
  unfold clean, no_lower in *.
  split; rewrite Forall_forall in *; intros x Hx; apply in_map_iff in Hx; destruct Hx as (y & <- & Hy); destruct (Hn y Hy) as [H1 H2];
    unfold t2u, coerce_char; split_ifs; lia.
Qed.

Lemma inv_fresh_dna src s' : no_lower src -> fresh KDna (map u2t src) = Ok s' -> SWF s' -> inv s'.
Proof.
  intros Hn Hf Hs. destruct (fresh_parent _ _ _ Hf) as [Hp Hk]. split; [exact Hs|]. rewrite Hp, Hk.
  unfold clean, no_lower in *.
  split; rewrite Forall_forall in *; intros x Hx; apply in_map_iff in Hx; destruct Hx as (y & <- & Hy); destruct (Hn y Hy) as [H1 H2];
    unfold u2t, coerce_char; split_ifs; lia.
Qed.

Lemma inv_view s v' hid : inv s -> SWF (mkS v' (parent s) (skind s) hid) -> inv (mkS v' (parent s) (skind s) hid).
Proof. intros (_ & Hc & Hn) Hs. split; [exact Hs|]. split; assumption. Qed.

Lemma inv_apply_op i s o s' : inv s -> apply_op i s o = Ok s' -> inv s'.
Proof.
  intros Hinv. pose proof Hinv as (Hs & Hc & Hn). pose proof Hs as [Hwf Hfit].
  destruct o as [a b c|n| | | |]; cbn [apply_op].
  - (* Slice *)
    destruct (getitem_slice FSeqView (sv s) a b c) as [v'|e] eqn:Eg; cbn [with_view]; [|discriminate].
    intros [= <-]. apply inv_view; [exact Hinv|].
    split; cbn [sv parent]; [exact (wf_getitem_slice_lemma _ _ _ _ _ _ Hwf Eg)|exact (fits_getitem_slice _ _ _ _ _ _ _ Hwf Hfit Eg)].
  - (* Index *)
    pose proof (realise_index s n (has_id s && same_parent (sv s) (sv s)) Hs) as Hi.
    destruct (getitem_int (sv s) n) as [v'|e] eqn:Eg; cbn [with_view]; [|discriminate].
    intros [= <-]. apply inv_view; [exact Hinv|].
    pose proof (realise_index s n (has_id s && same_parent (sv s) v') Hs) as Hi'. rewrite Eg in Hi'. exact (proj1 Hi').
  - (* Rc *)
    destruct (skind s); try discriminate;
    (destruct (getitem_slice FSeqView (sv s) None None (Some (-1))) as [v'|e] eqn:Eg; cbn [with_view]; [|discriminate];
     intros [= <-]; apply inv_view; [exact Hinv|];
     split; cbn [sv parent]; [exact (wf_getitem_slice_lemma _ _ _ _ _ _ Hwf Eg)|exact (fits_getitem_slice _ _ _ _ _ _ _ Hwf Hfit Eg)]).
  - (* ToRna *)
    unfold to_moltype. destruct (skind s) eqn:Ek; try discriminate.
    + intros Hf. set (src := match i with OldStyle => value (sv s) (parent s) | _ => realise s end) in Hf.
      assert (Hsrc : no_lower src).
      { subst src. destruct i; [apply Forall_value; exact Hn|apply no_lower_realise; exact Hn|apply no_lower_realise; exact Hn]. }
      destruct (fresh_spec KRna (map t2u src)) as (s1 & Hf1 & Hs1 & _). rewrite Hf in Hf1. injection Hf1 as <-.
      exact (inv_fresh_rna src s' Hsrc Hf Hs1).
    + intros [= <-]. exact Hinv.
  - (* ToDna *)
    unfold to_moltype. destruct (skind s) eqn:Ek; try discriminate.
    + intros [= <-]. exact Hinv.
    + intros Hf. set (src := match i with OldStyle => value (sv s) (parent s) | _ => realise s end) in Hf.
      assert (Hsrc : no_lower src).
      { subst src. destruct i; [apply Forall_value; exact Hn|apply no_lower_realise; exact Hn|apply no_lower_realise; exact Hn]. }
      destruct (fresh_spec KDna (map u2t src)) as (s1 & Hf1 & Hs1 & _). rewrite Hf in Hf1. injection Hf1 as <-.
      exact (inv_fresh_dna src s' Hsrc Hf Hs1).
  - (* CopySliced *)
    set (keep := match i with NewStyle => true | _ => false end).
    destruct (copy_sliced_any keep (sv s) (parent s) Hwf Hfit) as (v' & Hr & Hwf' & Hz & Hval & Hdir & Hoff).
    assert (Hseg : snd (copy_sliced keep (sv s) (parent s)) = rich_seq (sv s) (parent s)) by reflexivity.
    destruct (copy_sliced keep (sv s) (parent s)) as [r sg]. cbn [fst snd] in *. subst r sg.
    destruct (negb (parent_start (sv s) =? 0) && negb (offset v' =? 0)); [discriminate|].
    intros [= <-]. split; [|split]; cbn [sv parent skind].
    + split; cbn [sv parent].
      * destruct (parent_start (sv s) =? 0); [exact Hwf'|]. destruct Hwf' as [H1 H2]. split; [exact H1|exact H2].
      * right. destruct (parent_start (sv s) =? 0); cbn [seq_len]; congruence.
    + unfold clean in *. rewrite Forall_forall in *. intros x Hx. apply Hc.
      unfold rich_seq in Hx. destruct (rich_bounds (sv s)). exact (py_slice_In _ _ _ _ _ Hx).
    + unfold no_lower in *. rewrite Forall_forall in *. intros x Hx. apply Hn.
      unfold rich_seq in Hx. destruct (rich_bounds (sv s)). exact (py_slice_In _ _ _ _ _ Hx).
Qed.

Lemma inv_run_ops i ops : forall s, inv s -> inv (run_ops i s ops).
Proof.
  induction ops as [|o ops IH]; intros s Hs; [exact Hs|].
  unfold run_ops. cbn [fold_left]. fold (run_ops i (apply_keep i s o) ops). apply IH.
  unfold apply_keep. destruct (apply_op i s o) as [s'|e] eqn:E; [exact (inv_apply_op i s o s' Hs E)|exact Hs].
Qed.

Lemma inv_init k p off s0 : init_seq k p off = Ok s0 -> clean k p -> no_lower p -> inv s0.
Proof.
  intros Hi Hc Hn. destruct (init_seq_spec k p off) as (s1 & H1 & Hs & Hpl & _ & _ & Hp).
  rewrite Hi in H1. injection H1 as <-. split; [exact Hs|].
  assert (Hk : skind s0 = k) by (unfold plain_of in Hpl; congruence).
  rewrite Hp, Hk. split; assumption.
Qed.

(** HEADLINE: whatever chain of operations produced the sequence, both implementations' rich dict
    reads back (through the registry) as a sequence that is observed equal *)
Lemma seq_roundtrip_reachable_lemma st k p off ops s0 nm inf d :
  init_seq k p off = Ok s0 -> clean k p -> no_lower p ->
  seq_to_dict st (mkSeq (run_ops (impl_of st) s0 ops) nm inf) = JObj d ->
  exists s', seq_of_dict st d = Ok s' /\
    observe_seq s' = observe_seq (mkSeq (run_ops (impl_of st) s0 ops) nm inf).
Proof.
  intros Hi Hc Hn Hd. pose proof (inv_run_ops (impl_of st) ops s0 (inv_init k p off s0 Hi Hc Hn)) as (Hs & Hcl & _).
  apply (seq_roundtrip_lemma st _ d); [split; assumption|exact Hd].
Qed.

(** * trees *)

Lemma zeqb_str_eqb a b : zeqb a b = Rose.str_eqb a b.
Proof. revert b. induction a as [|x a IH]; intros [|y b]; cbn; try reflexivity; try (now rewrite IH). Qed.

Lemma jget_dict_set n k v d : jget n (dict_set k v d) = if zeqb n k then Some v else jget n d.
Proof.
  induction d as [|[k' v'] d IH]; cbn [dict_set jget]; [reflexivity|].
  destruct (zeqb k k') eqn:E.
  - apply zeqb_eq in E. subst k'. cbn [jget]. destruct (zeqb n k); reflexivity.
  - cbn [jget]. destruct (zeqb n k') eqn:E2; [|exact IH].
    destruct (zeqb n k) eqn:E3; [|reflexivity].
    apply zeqb_eq in E2, E3. subst. rewrite zeqb_refl in E. discriminate.
Qed.

Lemma attr_get_found a n f : Tree.attr_get a n f = match Tree.attr_get a n None with Some x => Some x | None => f end.
Proof.
  revert f. induction a as [|[k v] a IH]; intros f; cbn [Tree.attr_get]; [reflexivity|].
  rewrite IH. rewrite (IH (if Rose.str_eqb k n then Some v else None)).
  destruct (Tree.attr_get a n None); [reflexivity|]. destruct (Rose.str_eqb k n); reflexivity.
Qed.

Definition enc_len (l : option Z) : json := JObj [(k_length, len_to_json l)].

Lemma jget_attrs_gen a n : forall d,
  jget n (fold_left (fun d kv => dict_set (fst kv) (enc_len (snd kv)) d) a d) =
  match Tree.attr_get a n None with Some v => Some (enc_len v) | None => jget n d end.
Proof.
  induction a as [|[k v] a IH]; intros d; cbn [fold_left Tree.attr_get fst snd]; [reflexivity|].
  rewrite IH, (attr_get_found a n (if Rose.str_eqb k n then Some v else None)), jget_dict_set.
  destruct (Tree.attr_get a n None); [reflexivity|].
  rewrite zeqb_str_eqb. destruct (Rose.str_eqb n k) eqn:E.
  - apply Rose.str_eqb_eq in E. subst. now rewrite Rose.str_eqb_refl.
  - destruct (Rose.str_eqb k n) eqn:E2; [|reflexivity].
    apply Rose.str_eqb_eq in E2. subst. rewrite Rose.str_eqb_refl in E. discriminate.
Qed.

Lemma jget_attrs a n : jget n (attrs_to_dict a) =
  match Tree.attr_get a n None with Some v => Some (enc_len v) | None => None end.
Proof. unfold attrs_to_dict. apply (jget_attrs_gen a n []). Qed.

Lemma apply_attr_dict_eq a t : apply_attr_dict (attrs_to_dict a) t = Tree.apply_attrs a t.
Proof.
  induction t as [n l cs IH] using Rose.tree_ind'.
  cbn [apply_attr_dict Tree.apply_attrs]. rewrite jget_attrs. f_equal.
  - destruct (Tree.attr_get a n None) as [[z|]|]; reflexivity.
  - apply map_ext_in. intros c Hc. rewrite Forall_forall in IH. exact (IH c Hc).
Qed.

(** the model's dict decoder computes exactly C09's [json_roundtrip_fixed] *)
Lemma tree_of_dict_eq t d : tree_to_dict t = JObj d -> tree_of_dict d = lift_tree (TreeJson.json_roundtrip_fixed t).
Proof.
  intros Hd. unfold tree_to_dict in Hd. injection Hd as <-.
  unfold tree_of_dict, TreeJson.json_roundtrip_fixed. jget_simpl. cbn [get_str get_obj bind].
  destruct (Tree.make_tree false (TreeJson.newick_node_qb true t)) as [t'|e]; cbn [lift_tree bind]; [|reflexivity].
  now rewrite apply_attr_dict_eq.
Qed.

Lemma tree_roundtrip_lemma t d : NewickMoreProofs.rt_ok_json t = true -> tree_to_dict t = JObj d -> tree_of_dict d = Ok t.
Proof.
  intros Hok Hd. rewrite (tree_of_dict_eq t d Hd), (NewickMoreProofs.json_roundtrip_fixed_id t Hok). reflexivity.
Qed.

(** * tables *)

Lemma mem_str_In k l : mem_str k l = true <-> In k l.
Proof.
  induction l as [|x l IH]; cbn [mem_str]; [split; [discriminate|intros []]|].
  rewrite orb_true_iff, zeqb_eq, IH. cbn [In]. split; intros [H|H]; [left; now symmetry|right; exact H|left; now symmetry|right; exact H].
Qed.

Definition enc_col (c : column) : list Z * json := (c_name c, col_to_json c).

Lemma jget_skip_cols k pre rest : ~ In k (map c_name pre) ->
  jget k (map enc_col pre ++ rest) = jget k rest.
Proof.
  induction pre as [|c pre IH]; intros Hn; [reflexivity|].
  change (map enc_col (c :: pre) ++ rest) with ((c_name c, col_to_json c) :: (map enc_col pre ++ rest)).
  cbn [map] in Hn. rewrite jget_skip.
  - apply IH. intros H. apply Hn. right. exact H.
  - destruct (zeqb k (c_name c)) eqn:E; [|reflexivity]. apply zeqb_eq in E. exfalso. apply Hn. left. now symmetry.
Qed.

Definition recol (c : column) : column := mkCol (c_name c) (redtype (c_dtype c)) (c_values c).

Lemma cols_decode n : forall cs pre seen nr,
  cols_okb cs n seen = true -> (forall k, In k (map c_name pre) -> In k seen) ->
  (nr = None \/ nr = Some n) ->
  cols_of_dict (map (fun c => JStr (c_name c)) cs) (map enc_col (pre ++ cs)) nr seen = Ok (map recol cs).
Proof.
  induction cs as [|c cs IH]; intros pre seen nr Hok Hpre Hnr; [reflexivity|].
  cbn [cols_okb] in Hok. repeat (apply andb_true_iff in Hok; destruct Hok as [Hok ?]).
  rename H into Hrest, H0 into Hlen, H1 into Hsc, H2 into Hseen. rename Hok into Hstr.
  apply negb_true_iff in Hseen.
  assert (HD : jget (c_name c) (map enc_col (pre ++ c :: cs)) = Some (col_to_json c)).
  { rewrite map_app. cbn [map]. rewrite jget_skip_cols.
    - change (enc_col c) with (c_name c, col_to_json c). apply jget_here.
    - intros Hin. apply Hpre in Hin. apply mem_str_In in Hin. congruence. }
  set (D := map enc_col (pre ++ c :: cs)) in *.
  cbn [map cols_of_dict]. rewrite HD. unfold col_to_json at 1. cbn [get_obj bind]. jget_simpl.
  rewrite Hsc, Hstr, Hseen. cbn [negb orb].
  assert (Hz : zlen (c_values c) = n) by lia.
  replace (match nr with Some n0 => negb (n0 =? 0) && negb (zlen (c_values c) =? n0) | None => false end) with false.
  2:{ destruct Hnr as [->| ->]; [reflexivity|]. rewrite Hz, Z.eqb_refl. cbn [negb]. now rewrite andb_false_r. }
  assert (HDeq : D = map enc_col ((pre ++ [c]) ++ cs)) by (unfold D; now rewrite <- app_assoc).
  rewrite HDeq, IH.
  - cbn [bind]. reflexivity.
  - exact Hrest.
  - intros k Hk. rewrite map_app, in_app_iff in Hk. cbn [map In] in Hk. cbn [In]. destruct Hk as [Hk|Hk]; [right; apply Hpre; exact Hk|left; tauto].
  - right. destruct Hnr as [->| ->]; [now rewrite Hz|]. destruct (n =? 0) eqn:E; [|reflexivity]. rewrite Hz. reflexivity.
Qed.

Lemma find_col_recol n cs : find_col n (map recol cs) = option_map recol (find_col n cs).
Proof.
  induction cs as [|c cs IH]; [reflexivity|]. cbn [map find_col recol c_name].
  destruct (zeqb n (c_name c)); [reflexivity|exact IH].
Qed.

Lemma check_index_recol ix cs : check_index ix (map recol cs) = check_index ix cs.
Proof.
  destruct ix as [n|]; [|reflexivity]. cbn [check_index]. rewrite find_col_recol.
  destruct (find_col n cs); reflexivity.
Qed.

(** the decoder on what the encoder wrote: index, attributes, column names, order and cells come back; the dtype
    strings come back as [redtype] of what was written *)
Lemma table_decode_lemma t d : table_okb t = true -> table_to_dict t = JObj d ->
  table_of_dict d = Ok (mkTab (t_index t) (t_attrs t) (map recol (t_cols t))).
Proof.
  intros Hok Hd. unfold table_to_dict in Hd. injection Hd as <-.
  unfold table_okb in Hok. apply andb_true_iff in Hok. destruct Hok as [Hcols Hix].
  unfold table_of_dict. jget_simpl. cbn [get_obj bind]. rewrite zeqb_refl. cbn [negb].
  rewrite get_opt_str_jopt. cbn [bind]. jget_simpl. cbn [get_obj bind]. jget_simpl. cbn [get_obj bind].
  pose proof (cols_decode _ (t_cols t) [] [] None Hcols ltac:(intros k []) ltac:(left; reflexivity)) as Hdec.
  cbn [app] in Hdec. unfold enc_col in Hdec. rewrite Hdec. cbn [bind]. rewrite check_index_recol.
  destruct (check_index (t_index t) (t_cols t)); [|discriminate]. reflexivity.
Qed.

Lemma map_recol_stable cs : forallb (fun c => zeqb (redtype (c_dtype c)) (c_dtype c)) cs = true -> map recol cs = cs.
Proof.
  induction cs as [|c cs IH]; [reflexivity|]. cbn [forallb map]. intros H. apply andb_true_iff in H. destruct H as [H1 H2].
  rewrite (IH H2). apply zeqb_eq in H1. unfold recol. rewrite H1. destruct c; reflexivity.
Qed.

(** every table: observed equal (index, attributes, column order, names, cells) *)
Lemma table_roundtrip_lemma t d : table_okb t = true -> table_to_dict t = JObj d ->
  exists t', table_of_dict d = Ok t' /\ observe_table t' = observe_table t /\ table_dtypes t' = map redtype (table_dtypes t).
Proof.
  intros Hok Hd. rewrite (table_decode_lemma t d Hok Hd). eexists. split; [reflexivity|].
  unfold observe_table, table_dtypes. cbn [t_index t_attrs t_cols]. rewrite !map_map. split; reflexivity.
Qed.

(** tables without a text column: the identical table, dtype strings included *)
Lemma table_roundtrip_exact_lemma t d : table_okb t = true -> dtypes_stable t = true -> table_to_dict t = JObj d ->
  table_of_dict d = Ok t.
Proof.
  intros Hok Hst Hd. rewrite (table_decode_lemma t d Hok Hd). unfold dtypes_stable in Hst.
  rewrite (map_recol_stable _ Hst). destruct t; reflexivity.
Qed.

(** a text column does NOT keep its dtype: "U96" (3 characters) is read as 96 characters and written as "U3072";
    every further round trip multiplies the item size by 32 (finding C10-F13) *)
Lemma table_text_dtype_refuted_lemma :
  exists t d t', table_okb t = true /\ table_to_dict t = JObj d /\ table_of_dict d = Ok t' /\ t' <> t /\
    table_dtypes t = [[85; 57; 54]] /\ table_dtypes t' = [[85; 51; 48; 55; 50]].
Proof.
  exists (mkTab None [] [mkCol [97] [85; 57; 54] [JStr [120; 121; 122]]]).
  eexists. eexists. split; [vm_compute; reflexivity|]. split; [reflexivity|].
  split; [vm_compute; reflexivity|]. split; [discriminate|]. split; reflexivity.
Qed.

(** * dict arrays, NotCompleted *)

Lemma names_of_json_map l : names_of_json (map JArr l) = Ok l.
Proof. induction l as [|x l IH]; [reflexivity|]. cbn [map names_of_json]. rewrite IH. reflexivity. Qed.

Lemma darr_roundtrip_lemma a d : darr_okb a = true -> darr_to_dict a = JObj d -> darr_of_dict d = Ok a.
Proof.
  intros Hok Hd. unfold darr_to_dict in Hd. injection Hd as <-.
  unfold darr_of_dict. jget_simpl. rewrite names_of_json_map. cbn [bind].
  unfold darr_okb in Hok. rewrite Hok. destruct a; reflexivity.
Qed.

Lemma nc_roundtrip_lemma n d : nc_okb n = true -> nc_to_dict n = JObj d -> nc_of_dict d = Ok n.
Proof.
  intros Hok Hd. unfold nc_to_dict in Hd. injection Hd as <-.
  unfold nc_okb in Hok. apply andb_true_iff in Hok. destruct Hok as [Ha Hk].
  unfold nc_of_dict. jget_simpl. cbn [get_obj bind]. jget_simpl.
  rewrite Ha, Hk. cbn [negb]. destruct n; reflexivity.
Qed.

(** * [deserialise_object . to_rich_dict] on every modelled type, through the registry *)

Ltac dispatch_to D :=
  match goal with
  | |- context [dispatch registry ?t] => replace (dispatch registry t) with (Some D) by (vm_compute; reflexivity)
  end.


(** * feature maps *)

Lemma span_roundtrip sp d : span_okb sp = true -> span_to_dict sp = JObj d -> span_of_dict d = Ok sp.
Proof.
  destruct sp as [s e r|n]; cbn [span_okb span_to_dict]; intros Hok Hd; injection Hd as <-; unfold span_of_dict; jget_simpl; cbn [get_str bind].
  - replace (zeqb ty_span ty_span) with true by (vm_compute; reflexivity). jget_simpl. cbn [get_int bind].
    unfold FeatureMap.mk_span. replace (s >? e) with false by lia. reflexivity.
  - replace (zeqb ty_lostspan ty_span) with false by (vm_compute; reflexivity).
    replace (zeqb ty_lostspan ty_lostspan) with true by (vm_compute; reflexivity). jget_simpl. reflexivity.
Qed.

Lemma spans_roundtrip l : forallb span_okb l = true -> spans_of_json (map span_to_dict l) = Ok l.
Proof.
  induction l as [|sp l IH]; [reflexivity|]. cbn [forallb map]. intros H. apply andb_true_iff in H. destruct H as [H1 H2].
  destruct (span_to_dict sp) as [| | | | |d|] eqn:E; try (destruct sp; discriminate).
  cbn [spans_of_json]. rewrite (span_roundtrip sp d H1 E). cbn [bind]. rewrite (IH H2). reflexivity.
Qed.

Lemma fmap_roundtrip_lemma m d : forallb span_okb (FeatureMap.fspans m) = true -> fmap_to_dict m = JObj d -> fmap_of_dict d = Ok m.
Proof.
  intros Hok Hd. unfold fmap_to_dict in Hd. injection Hd as <-. unfold fmap_of_dict. jget_simpl.
  rewrite (spans_roundtrip _ Hok). cbn [bind get_int]. destruct m; reflexivity.
Qed.

(** * annotation databases *)

Lemma jget_ofield_here k o d : jget k (ofield k o ++ d) = match o with Some j => Some j | None => jget k d end.
Proof. destruct o; cbn [ofield app]; [apply jget_here|reflexivity]. Qed.

Lemma jget_ofield_skip k k' o d : zeqb k k' = false -> jget k (ofield k' o ++ d) = jget k d.
Proof. intros H. destruct o; cbn [ofield app]; [now apply jget_skip|reflexivity]. Qed.

Ltac ofield_simpl :=
  repeat (rewrite jget_ofield_here || (rewrite jget_ofield_skip by (vm_compute; reflexivity))
          || rewrite jget_here || (rewrite jget_skip by (vm_compute; reflexivity))).

Lemma spans2_roundtrip sp : spans_of_json2 (map (fun p => JArr [JInt (fst p); JInt (snd p)]) sp) = Ok sp.
Proof. induction sp as [|[a b] sp IH]; [reflexivity|]. cbn [map spans_of_json2 fst snd]. rewrite IH. reflexivity. Qed.

Lemma get_opt_str_field (o : option AnnotDb.str) rest :
  get_opt_str (match option_map JStr o with Some j => Some j | None => rest end) =
  match o with Some s => Ok (Some s) | None => get_opt_str rest end.
Proof. destruct o; reflexivity. Qed.

Lemma row_roundtrip r d : row_to_json r = JObj d -> row_of_dict (AnnotDb.r_table r) d = Ok r.
Proof.
  intros Hd. unfold row_to_json in Hd. injection Hd as <-. unfold row_of_dict.
  ofield_simpl. rewrite !get_opt_str_field. cbn [jget].
  destruct r as [t sid bt nm sd at_ oa sp a b]. cbn [AnnotDb.r_seqid AnnotDb.r_biotype AnnotDb.r_name AnnotDb.r_strand AnnotDb.r_attrs AnnotDb.r_on_aln AnnotDb.r_spans AnnotDb.r_start AnnotDb.r_stop AnnotDb.r_table].
  destruct sid, bt, nm, sd, at_; cbn [get_opt_str bind];
    (destruct oa as [[|]|]; cbn [option_map bind]; unfold spans_to_json; rewrite spans2_roundtrip; cbn [bind get_int]; reflexivity).
Qed.

Lemma rows_json_roundtrip t rows : Forall (fun r => AnnotDb.r_table r = t) rows ->
  rows_of_json t (map row_to_json rows) = Ok rows.
Proof.
  induction 1 as [|r rows Hr _ IH]; [reflexivity|]. cbn [map].
  destruct (row_to_json r) as [| | | | |d|] eqn:E; try discriminate.
  cbn [rows_of_json]. rewrite <- Hr at 1. rewrite (row_roundtrip r d E). cbn [bind]. rewrite IH. reflexivity.
Qed.

Lemma rows_of_table t db : Forall (fun r => AnnotDb.r_table r = t) (AnnotDb.rows_of t db).
Proof.
  unfold AnnotDb.rows_of. apply Forall_forall. intros r Hr. apply filter_In in Hr. destruct Hr as [_ H]. lia.
Qed.

Lemma table_key_inv t : t = 0 \/ t = 1 -> table_of_key (table_key t) = t.
Proof. intros [->| ->]; vm_compute; reflexivity. Qed.

Lemma tables_dict_roundtrip db : forall ts, Forall (fun t => t = 0 \/ t = 1) ts ->
  tables_of_dict (map (fun tr => (table_key (fst tr), JArr (map row_to_json (snd tr)))) (AnnotDb.to_rich ts db)) = Ok (AnnotDb.to_rich ts db).
Proof.
  induction 1 as [|t ts Ht _ IH]; [reflexivity|].
  unfold AnnotDb.to_rich in *. cbn [map fst snd tables_of_dict].
  rewrite (table_key_inv t Ht), (rows_json_roundtrip t _ (rows_of_table t db)). cbn [bind]. rewrite IH. reflexivity.
Qed.

Lemma db_decode_lemma db d : db_to_dict [0; 1] db = JObj d -> db_of_dict d = Ok (AnnotDb.from_rich (AnnotDb.to_rich [0; 1] db)).
Proof.
  intros Hd. unfold db_to_dict in Hd. injection Hd as <-. unfold db_of_dict. jget_simpl. cbn [get_obj bind].
  assert (H01 : Forall (fun t => t = 0 \/ t = 1) [0; 1]) by (constructor; [left; reflexivity|constructor; [right; reflexivity|constructor]]).
  pose proof (tables_dict_roundtrip db [0; 1] H01) as H. unfold AnnotDb.to_rich in H. cbn [map fst snd] in H.
  rewrite H. reflexivity.
Qed.

Lemma records_idem db : AnnotDbProofs.tables_ok [0; 1] db ->
  AnnotDbSpec.records_in_tables [0; 1] (AnnotDbSpec.records_in_tables [0; 1] db) = AnnotDbSpec.records_in_tables [0; 1] db.
Proof.
  intros H. unfold AnnotDbSpec.records_in_tables at 1. cbn [flat_map].
  rewrite !(AnnotDbProofs.rows_of_records_ok [0; 1] db _ H). reflexivity.
Qed.

(** the db read back lists the same records table by table, and holds the same multiset (C17) *)
Lemma db_roundtrip_lemma db d : AnnotDbProofs.tables_ok [0; 1] db -> db_to_dict [0; 1] db = JObj d ->
  exists db', db_of_dict d = Ok db' /\ AnnotDbSpec.records_in_tables [0; 1] db' = AnnotDbSpec.records_in_tables [0; 1] db /\
    Permutation db' db.
Proof.
  intros Hok Hd. rewrite (db_decode_lemma db d Hd). eexists. split; [reflexivity|].
  rewrite AnnotDbProofs.from_to_rich. split; [exact (records_idem db Hok)|].
  rewrite <- AnnotDbProofs.from_to_rich. exact (AnnotDbProofs.rich_roundtrip_multiset [0; 1] db Hok).
Qed.

(** a sequence WITH its annotation db *)
Lemma seq_of_dict_old_extra s d extra : seq_to_dict SOld s = JObj d ->
  seq_of_dict_old (d ++ [(k_annotation_db, extra)]) = seq_of_dict_old d.
Proof.
  intros Hd. unfold seq_to_dict in Hd. injection Hd as <-. cbn [app]. unfold seq_of_dict_old. jget_simpl. reflexivity.
Qed.

Lemma seq_db_roundtrip_lemma s db d : seq_ok s -> AnnotDbProofs.tables_ok [0; 1] db -> db <> [] ->
  seq_db_to_dict s [0; 1] db = JObj d ->
  exists s' db', seq_db_of_dict d = Ok (s', db') /\ observe_seq s' = observe_seq s /\
    AnnotDbSpec.records_in_tables [0; 1] db' = AnnotDbSpec.records_in_tables [0; 1] db /\ Permutation db' db.
Proof.
  intros Hs Hdb Hne Hd. unfold seq_db_to_dict in Hd.
  destruct (seq_to_dict SOld s) as [| | | | |sd|] eqn:Es; try discriminate.
  destruct db as [|r0 db0]; [contradiction|]. injection Hd as <-.
  destruct (seq_roundtrip_old_lemma s sd Hs Es) as (s' & Hdec & Hobs).
  destruct (db_to_dict [0; 1] (r0 :: db0)) as [| | | | |dbd|] eqn:Edb; try discriminate.
  destruct (db_roundtrip_lemma (r0 :: db0) dbd Hdb Edb) as (db' & Hdbdec & Hrec & Hperm).
  unfold seq_db_of_dict. rewrite (seq_of_dict_old_extra s sd _ Es), Hdec. cbn [bind].
  assert (Hj : jget k_annotation_db (sd ++ [(k_annotation_db, JObj dbd)]) = Some (JObj dbd)).
  { pose proof Es as Es'. unfold seq_to_dict in Es'. injection Es' as <-. cbn [app]. jget_simpl. reflexivity. }
  rewrite Hj, Hdbdec. cbn [bind]. exists s', db'. repeat split; assumption.
Qed.

(** * distance matrices and profile arrays *)

(** names a < b < c (< d), ARBITRARY cells off the diagonal, 0.0 on it: the identical matrix *)
Definition nA := [97]. Definition nB := [98]. Definition nC := [99]. Definition nD := [100].
Definition z0 := JFloat float_zero.

Lemma dmat_roundtrip_2 v01 v10 inv d :
  dmat_to_dict (mkDm [nA; nB] [[z0; v01]; [v10; z0]] inv) = JObj d ->
  dmat_of_dict d = Ok (mkDm [nA; nB] [[z0; v01]; [v10; z0]] inv).
Proof. intros Hd. injection Hd as <-. reflexivity. Qed.

Lemma dmat_roundtrip_3 v01 v02 v10 v12 v20 v21 inv d :
  dmat_to_dict (mkDm [nA; nB; nC] [[z0; v01; v02]; [v10; z0; v12]; [v20; v21; z0]] inv) = JObj d ->
  dmat_of_dict d = Ok (mkDm [nA; nB; nC] [[z0; v01; v02]; [v10; z0; v12]; [v20; v21; z0]] inv).
Proof. intros Hd. injection Hd as <-. reflexivity. Qed.

Lemma dmat_roundtrip_4 v01 v02 v03 v10 v12 v13 v20 v21 v23 v30 v31 v32 inv d :
  dmat_to_dict (mkDm [nA; nB; nC; nD] [[z0; v01; v02; v03]; [v10; z0; v12; v13]; [v20; v21; z0; v23]; [v30; v31; v32; z0]] inv) = JObj d ->
  dmat_of_dict d = Ok (mkDm [nA; nB; nC; nD] [[z0; v01; v02; v03]; [v10; z0; v12; v13]; [v20; v21; z0; v23]; [v30; v31; v32; z0]] inv).
Proof. intros Hd. injection Hd as <-. reflexivity. Qed.

(** reading back a FULL pairs dict never uses the mirror fill: a stored (a, b) wins whatever (b, a) holds, so an
    asymmetric matrix keeps both of its triangles *)
Lemma dm_cell_stored_lemma T a b v : pget T a b = Some v -> dm_cell T a b = v.
Proof. intros H. unfold dm_cell. now rewrite H. Qed.

Lemma dm_cell_mirror_lemma T a b : pget T a b = None ->
  dm_cell T a b = match pget T b a with Some v => v | None => JFloat float_zero end.
Proof. intros H. unfold dm_cell. now rewrite H. Qed.

(** an asymmetric 3 x 3 matrix, every cell different, NaN included: identical after the round trip *)
Lemma dmat_asymmetric_example_lemma :
  let m := mkDm [nA; nB; nC] [[z0; JFloat [49]; JFloat [50]]; [JFloat [55; 46; 53]; z0; JFloat [110; 97; 110]]; [JFloat [57]; JFloat [56]; z0]] JNull in
  exists d, dmat_to_dict m = JObj d /\ dmat_of_dict d = Ok m.
Proof. eexists. split; [reflexivity|]. vm_compute. reflexivity. Qed.

(** names that are not sorted come back SORTED (the matrix permuted with them) *)
Lemma dmat_name_order_refuted_lemma :
  exists m d m', dmat_to_dict m = JObj d /\ dmat_of_dict d = Ok m' /\ dm_names m = [nC; nA; nB] /\ dm_names m' = [nA; nB; nC] /\ m' <> m.
Proof.
  exists (mkDm [nC; nA; nB] [[z0; JFloat [49]; JFloat [50]]; [JFloat [49]; z0; JFloat [51]]; [JFloat [50]; JFloat [51]; z0]] JNull).
  eexists. eexists. split; [reflexivity|]. split; [vm_compute; reflexivity|]. split; [reflexivity|]. split; [reflexivity|]. discriminate.
Qed.

(** a non-zero diagonal is not written and reads back as 0.0 *)
Lemma dmat_diagonal_refuted_lemma :
  exists m d m', dmat_to_dict m = JObj d /\ dmat_of_dict d = Ok m' /\ dm_names m' = dm_names m /\ m' <> m.
Proof.
  exists (mkDm [nA; nB] [[JFloat [53]; JFloat [49]]; [JFloat [49]; z0]] JNull).
  eexists. eexists. split; [reflexivity|]. split; [vm_compute; reflexivity|]. split; [reflexivity|]. discriminate.
Qed.

(** a profile array writes the type string of its TEMPLATE; the registry resolves it (substring
    "cogent3.util.dict_array.DictArray") to [deserialise_tabular], which builds a plain DictArray: the data
    survive, the class (and with it the methods of the profile) does not (open finding C10-K10) *)
Lemma profile_class_refuted_lemma : forall c a, darr_okb a = true ->
  exists y, deserialise_object (to_dict (OProfile c a)) = Ok y /\ y = ODarr a /\ observe y <> observe (OProfile c a).
Proof.
  intros c a Hok. cbn [to_dict].
  destruct (darr_to_dict a) as [| | | | |d|] eqn:Ed; try discriminate.
  pose proof (darr_roundtrip_lemma a d Hok Ed) as Hdec.
  pose proof Ed as Ed'. unfold darr_to_dict in Ed'. injection Ed' as Ed'.
  subst d. unfold deserialise_object. jget_simpl. dispatch_to DTabular.
  cbn [run_decoder]. jget_simpl.
  replace (is_suffix s_Table ty_dictarray) with false by (vm_compute; reflexivity).
  replace (is_infix s_dictarray (lower ty_dictarray)) with true by (vm_compute; reflexivity).
  rewrite Hdec. cbn [bind]. eexists. split; [reflexivity|]. split; [reflexivity|]. cbn [observe]. discriminate.
Qed.

Lemma moltype_roundtrip_lemma l d : mem_str l moltype_labels = true -> moltype_to_dict l = JObj d -> moltype_of_dict d = Ok l.
Proof.
  intros Hok Hd. unfold moltype_to_dict in Hd. injection Hd as <-. unfold moltype_of_dict. jget_simpl. cbn [get_str bind]. now rewrite Hok.
Qed.


(** * alphabets by label; alignments with an annotation db *)

Lemma strs_of_json_map l : strs_of_json (map JStr l) = Ok l.
Proof. induction l as [|x l IH]; [reflexivity|]. cbn [map strs_of_json]. rewrite IH. reflexivity. Qed.

Lemma alphabet_roundtrip_lemma a d : mem_str (al_label a) moltype_labels = true -> alphabet_to_dict a = JObj d -> alphabet_of_dict d = Ok a.
Proof.
  intros Hok Hd. unfold alphabet_to_dict in Hd. injection Hd as <-. unfold alphabet_of_dict. jget_simpl. cbn [get_str bind].
  rewrite Hok. cbn [negb]. cbn [jget]. jget_simpl. rewrite strs_of_json_map. cbn [bind]. rewrite get_opt_str_jopt. cbn [bind].
  destruct a; reflexivity.
Qed.

Lemma alignment_of_dict_extra k inf rows d extra : alignment_to_dict k inf rows = JObj d ->
  alignment_of_dict (d ++ [(k_annotation_db, extra)]) = alignment_of_dict d.
Proof.
  intros Hd. unfold alignment_to_dict in Hd. injection Hd as <-. cbn [app]. unfold alignment_of_dict. jget_simpl. reflexivity.
Qed.

Lemma alignment_db_roundtrip_lemma k inf rows db d : Forall aligned_ok rows -> AnnotDbProofs.tables_ok [0; 1] db -> db <> [] ->
  alignment_db_to_dict k inf rows [0; 1] db = JObj d ->
  exists rows' db', alignment_db_of_dict d = Ok ((k, inf, rows'), db') /\ map observe_aligned rows' = map observe_aligned rows /\
    AnnotDbSpec.records_in_tables [0; 1] db' = AnnotDbSpec.records_in_tables [0; 1] db /\ Permutation db' db.
Proof.
  intros Hrows Hdb Hne Hd. unfold alignment_db_to_dict in Hd.
  destruct (alignment_to_dict k inf rows) as [| | | | |ad|] eqn:Ea; try discriminate.
  destruct db as [|r0 db0]; [contradiction|]. injection Hd as <-.
  destruct (alignment_roundtrip_lemma k inf rows ad Hrows Ea) as (rows' & Hdec & Hobs).
  destruct (db_to_dict [0; 1] (r0 :: db0)) as [| | | | |dbd|] eqn:Edb; try discriminate.
  destruct (db_roundtrip_lemma (r0 :: db0) dbd Hdb Edb) as (db' & Hdbdec & Hrec & Hperm).
  unfold alignment_db_of_dict. rewrite (alignment_of_dict_extra k inf rows ad _ Ea), Hdec. cbn [bind].
  assert (Hj : jget k_annotation_db (ad ++ [(k_annotation_db, JObj dbd)]) = Some (JObj dbd)).
  { pose proof Ea as Ea'. unfold alignment_to_dict in Ea'. injection Ea' as <-. cbn [app]. jget_simpl. reflexivity. }
  rewrite Hj, Hdbdec. cbn [bind]. exists rows', db'. repeat split; assumption.
Qed.

Lemma roundtrip_via_registry_lemma x : obj_ok x ->
  exists y, deserialise_object (to_dict x) = Ok y /\ observe y = observe x.
Proof.
  destruct x as [v p sid|st s|m|a|k inf rows|t|t|a|n|dm|pc pa|fm|tbs rows|s tbs rows|lab|al|k inf rows tbs db]; cbn [obj_ok to_dict].
  - (* bare view *)
    intros [Hwf Hfit].
    destruct (view_to_dict SOld v p sid) as [| | | | |d|] eqn:Ed; try discriminate.
    destruct (view_roundtrip_lemma v p sid d Hwf Hfit Ed) as (v' & sg & Hdec & _ & Hobs).
    pose proof Ed as Ed'. unfold view_to_dict in Ed'. injection Ed' as Ed'.
    subst d. unfold deserialise_object. jget_simpl. dispatch_to DSeqView.
    cbn [run_decoder]. rewrite Hdec. cbn [bind]. eexists. split; [reflexivity|]. cbn [observe]. now rewrite Hobs.
  - (* sequence, either implementation *)
    intros Hok.
    destruct (seq_to_dict st s) as [| | | | |d|] eqn:Ed; try discriminate.
    destruct (seq_roundtrip_lemma st s d Hok Ed) as (s' & Hdec & Hobs).
    pose proof Ed as Ed'. unfold seq_to_dict in Ed'. injection Ed' as Ed'.
    subst d. unfold deserialise_object. jget_simpl.
    destruct st, (skind (s_core s));
      [dispatch_to DSeq|dispatch_to DSeq|dispatch_to DSeq|dispatch_to DNewDnaSequence|dispatch_to DNewRnaSequence|dispatch_to DNewSequence];
      cbn [run_decoder]; cbn [seq_of_dict] in Hdec; rewrite Hdec; cbn [bind];
      (eexists; split; [reflexivity|]; cbn [observe]; now rewrite Hobs).
  - (* indel map *)
    intros Hwf.
    destruct (imap_to_dict m) as [| | | | |d|] eqn:Ed; try discriminate.
    pose proof (imap_roundtrip_lemma m d Hwf Ed) as Hdec.
    pose proof Ed as Ed'. unfold imap_to_dict in Ed'. injection Ed' as Ed'.
    subst d. unfold deserialise_object. jget_simpl. dispatch_to DIndelMap.
    cbn [run_decoder]. rewrite Hdec. cbn [bind]. eexists. split; reflexivity.
  - (* aligned row *)
    intros Hok.
    destruct (aligned_to_dict a) as [| | | | |d|] eqn:Ed; try discriminate.
    destruct (aligned_roundtrip_lemma a d Hok Ed) as (a' & Hdec & _ & _ & Hobs).
    pose proof Ed as Ed'. unfold aligned_to_dict in Ed'. injection Ed' as Ed'.
    subst d. unfold deserialise_object. jget_simpl. dispatch_to DAligned.
    cbn [run_decoder]. rewrite Hdec. cbn [bind]. eexists. split; [reflexivity|]. cbn [observe]. now rewrite Hobs.
  - (* alignment *)
    intros Hok.
    destruct (alignment_to_dict k inf rows) as [| | | | |d|] eqn:Ed; try discriminate.
    destruct (alignment_roundtrip_lemma k inf rows d Hok Ed) as (rows' & Hdec & Hobs).
    pose proof Ed as Ed'. unfold alignment_to_dict in Ed'. injection Ed' as Ed'.
    subst d. unfold deserialise_object. jget_simpl. dispatch_to DSeqCollections.
    cbn [run_decoder]. rewrite Hdec. cbn [bind]. eexists. split; [reflexivity|]. cbn [observe]. now rewrite Hobs.
  - (* tree *)
    intros Hok.
    destruct (tree_to_dict t) as [| | | | |d|] eqn:Ed; try discriminate.
    pose proof (tree_roundtrip_lemma t d Hok Ed) as Hdec.
    pose proof Ed as Ed'. unfold tree_to_dict in Ed'. injection Ed' as Ed'.
    subst d. unfold deserialise_object. jget_simpl. dispatch_to DTree.
    cbn [run_decoder]. rewrite Hdec. cbn [bind]. eexists. split; reflexivity.
  - (* table *)
    intros Hok.
    destruct (table_to_dict t) as [| | | | |d|] eqn:Ed; try discriminate.
    destruct (table_roundtrip_lemma t d Hok Ed) as (t' & Hdec & Hobs & _).
    pose proof Ed as Ed'. unfold table_to_dict in Ed'. injection Ed' as Ed'.
    subst d. unfold deserialise_object. jget_simpl. dispatch_to DTabular.
    cbn [run_decoder]. jget_simpl.
    replace (is_suffix s_Table ty_table) with true by (vm_compute; reflexivity).
    rewrite Hdec. cbn [bind]. eexists. split; [reflexivity|]. cbn [observe]. now rewrite Hobs.
  - (* dict array *)
    intros Hok.
    destruct (darr_to_dict a) as [| | | | |d|] eqn:Ed; try discriminate.
    pose proof (darr_roundtrip_lemma a d Hok Ed) as Hdec.
    pose proof Ed as Ed'. unfold darr_to_dict in Ed'. injection Ed' as Ed'.
    subst d. unfold deserialise_object. jget_simpl. dispatch_to DTabular.
    cbn [run_decoder]. jget_simpl.
    replace (is_suffix s_Table ty_dictarray) with false by (vm_compute; reflexivity).
    replace (is_infix s_dictarray (lower ty_dictarray)) with true by (vm_compute; reflexivity).
    rewrite Hdec. cbn [bind]. eexists. split; reflexivity.
  - (* NotCompleted *)
    intros Hok.
    destruct (nc_to_dict n) as [| | | | |d|] eqn:Ed; try discriminate.
    pose proof (nc_roundtrip_lemma n d Hok Ed) as Hdec.
    pose proof Ed as Ed'. unfold nc_to_dict in Ed'. injection Ed' as Ed'.
    subst d. unfold deserialise_object. jget_simpl. dispatch_to DNotCompleted.
    cbn [run_decoder]. rewrite Hdec. cbn [bind]. eexists. split; reflexivity.
  - (* distance matrix: no general theorem *) intros [].
  - (* profile array: refuted *) intros [].
  - (* feature map *)
    intros Hok.
    destruct (fmap_to_dict fm) as [| | | | |d|] eqn:Ed; try discriminate.
    pose proof (fmap_roundtrip_lemma fm d Hok Ed) as Hdec.
    pose proof Ed as Ed'. unfold fmap_to_dict in Ed'. injection Ed' as Ed'.
    subst d. unfold deserialise_object. jget_simpl. dispatch_to DFeatureMap.
    cbn [run_decoder]. rewrite Hdec. cbn [bind]. eexists. split; reflexivity.
  - (* annotation db *)
    intros [-> Hok].
    destruct (db_to_dict [0; 1] rows) as [| | | | |d|] eqn:Ed; try discriminate.
    destruct (db_roundtrip_lemma rows d Hok Ed) as (db' & Hdec & Hrec & _).
    pose proof Ed as Ed'. unfold db_to_dict in Ed'. injection Ed' as Ed'.
    subst d. unfold deserialise_object. jget_simpl. dispatch_to DBasicDb.
    cbn [run_decoder]. rewrite Hdec. cbn [bind]. eexists. split; [reflexivity|]. cbn [observe]. now rewrite Hrec.
  - (* sequence with its annotation db *)
    intros (Hs & [-> Hok] & Hne).
    destruct (seq_db_to_dict s [0; 1] rows) as [| | | | |d|] eqn:Ed;
      try (unfold seq_db_to_dict, seq_to_dict in Ed; destruct rows; discriminate).
    destruct (seq_db_roundtrip_lemma s rows d Hs Hok Hne Ed) as (s' & db' & Hdec & Hobs & Hrec & _).
    assert (Hty : jget k_type d = Some (JStr (ty_seq SOld (skind (s_core s)))) /\ exists dbd, jget k_annotation_db d = Some (JObj dbd)).
    { unfold seq_db_to_dict, seq_to_dict, db_to_dict in Ed. destruct rows as [|r0 rows0]; [contradiction|]. injection Ed as <-.
      cbn [app]. split; [jget_simpl; reflexivity|]. eexists. jget_simpl. reflexivity. }
    destruct Hty as [Hty (dbd & Hdbk)].
    unfold deserialise_object. rewrite Hty.
    replace (dispatch registry (ty_seq SOld (skind (s_core s)))) with (Some DSeq) by (destruct (skind (s_core s)); vm_compute; reflexivity).
    cbn [run_decoder]. rewrite Hdbk, Hdec. cbn [bind fst snd]. eexists. split; [reflexivity|]. cbn [observe]. now rewrite Hobs, Hrec.
  - (* moltype, by label *)
    intros Hok.
    destruct (moltype_to_dict lab) as [| | | | |d|] eqn:Ed; try discriminate.
    pose proof (moltype_roundtrip_lemma lab d Hok Ed) as Hdec.
    pose proof Ed as Ed'. unfold moltype_to_dict in Ed'. injection Ed' as Ed'.
    subst d. unfold deserialise_object. jget_simpl. dispatch_to DMolType.
    cbn [run_decoder]. rewrite Hdec. cbn [bind]. eexists. split; reflexivity.
  - (* alphabet *)
    intros Hok.
    destruct (alphabet_to_dict al) as [| | | | |d|] eqn:Ed; try discriminate.
    pose proof (alphabet_roundtrip_lemma al d Hok Ed) as Hdec.
    pose proof Ed as Ed'. unfold alphabet_to_dict in Ed'. injection Ed' as Ed'.
    subst d. unfold deserialise_object. jget_simpl. dispatch_to DAlphabet.
    cbn [run_decoder]. rewrite Hdec. cbn [bind]. eexists. split; reflexivity.
  - (* alignment with its annotation db *)
    intros (Hrows & [-> Hok] & Hne).
    destruct (alignment_db_to_dict k inf rows [0; 1] db) as [| | | | |d|] eqn:Ed;
      try (unfold alignment_db_to_dict, alignment_to_dict in Ed; destruct db; discriminate).
    destruct (alignment_db_roundtrip_lemma k inf rows db d Hrows Hok Hne Ed) as (rows' & db' & Hdec & Hobs & Hrec & _).
    assert (Hty : jget k_type d = Some (JStr ty_alignment) /\ exists dbd, jget k_annotation_db d = Some (JObj dbd)).
    { unfold alignment_db_to_dict, alignment_to_dict, db_to_dict in Ed. destruct db as [|r0 db0]; [contradiction|]. injection Ed as <-.
      cbn [app]. split; [jget_simpl; reflexivity|]. eexists. jget_simpl. reflexivity. }
    destruct Hty as [Hty (dbd & Hdbk)].
    unfold deserialise_object. rewrite Hty. dispatch_to DSeqCollections.
    cbn [run_decoder]. rewrite Hdbk, Hdec. cbn [bind fst snd]. eexists. split; [reflexivity|]. cbn [observe]. now rewrite Hobs, Hrec.
Qed.

(** * what the bare view dict does NOT keep *)

(** a registered type whose round trip loses its position: the dict of a sliced [SeqView]
    reads back at parent_start 0 (the enclosing sequence is expected to supply the offset) *)
Lemma seqview_position_refuted_lemma :
  exists v p sid d v' sg, WF v /\ Fits v p /\ view_to_dict SOld v p sid = JObj d /\
    view_of_dict_old d = Ok (v', sg, sid) /\ parent_start v' <> parent_start v.
Proof.
  exists (mkV 2 6 1 8 3), [65; 67; 71; 71; 84; 84; 65; 65], None.
  eexists. eexists. eexists.
  split; [unfold WF; cbn; lia|]. split; [right; reflexivity|].
  split; [reflexivity|]. split; [vm_compute; reflexivity|]. vm_compute. discriminate.
Qed.

(** * the hypotheses are satisfiable (non-vacuity) *)

Lemma example_reachable :
  exists s0, init_seq KDna [65; 67; 71; 71; 84; 84; 65; 65; 67; 67] 3 = Ok s0 /\
    clean KDna [65; 67; 71; 71; 84; 84; 65; 65; 67; 67] /\ no_lower [65; 67; 71; 71; 84; 84; 65; 65; 67; 67] /\
    let s := run_ops OldStyle s0 [Slice (Some 1) (Some 9) None; Rc; Slice None None (Some 2)] in
    realise s = [71; 84; 65; 67] /\ parent_coords s = (4, 12, -1).
Proof.
  eexists. split; [reflexivity|]. split; [repeat constructor|]. split; [repeat constructor; lia|].
  vm_compute. split; reflexivity.
Qed.

Lemma example_aligned_ok :
  aligned_ok (mkAl (IndelMap.from_mask [true; false; false; true; true; false])
                   (mkSeq (mkS (mkV (-1) (-4) (-1) 5 2) [65; 67; 71; 84; 65] KDna true) (Some [115]) [])).
Proof.
  split; [apply IndelMapOps.wf_from_mask|]. split.
  - split; [unfold WF; cbn; lia|right; reflexivity].
  - repeat constructor.
Qed.

Lemma full_property_partial_lemma : forall x, obj_ok x ->
  exists y, (fun j => match deserialise_object j with Ok y => Some y | Err _ => None end) (to_dict x) = Some y /\
    observe y = observe x.
Proof.
  intros x Hok. destruct (roundtrip_via_registry_lemma x Hok) as (y & Hd & Ho).
  exists y. cbv beta. rewrite Hd. split; [reflexivity|exact Ho].
Qed.

(** * the decoded object is again a covered state: round trips can be iterated *)

Lemma wf_rebased L c off : 0 <= L -> c <> 0 -> WF (rebased L c off).
Proof.
  intros HL Hc. exact (wf_mk_view_lemma L None None (Some c) off _ HL (mk_view_rebased L c off HL Hc)).
Qed.

Lemma seq_len_rebased L c off : seq_len (rebased L c off) = L.
Proof. unfold rebased. split_ifs; reflexivity. Qed.

Lemma wf_norm_rebased L c off : 0 <= L -> c <> 0 -> WF (norm_rebased L c off).
Proof.
  intros HL Hc. unfold norm_rebased. destruct ((c <? 0) && (L =? 0)); [|apply wf_rebased; assumption].
  unfold WF. cbn. lia.
Qed.

Lemma fits_norm_rebased {A} L c off (sg : list A) : zlen sg = L -> Fits (norm_rebased L c off) sg.
Proof.
  intros HL. unfold norm_rebased. destruct ((c <? 0) && (L =? 0)) eqn:E.
  - left. reflexivity.
  - right. rewrite seq_len_rebased. exact HL.
Qed.

Lemma wf_with_off v o : WF v -> WF (with_off v o).
Proof. intros [H1 H2]. split; [exact H1|exact H2]. Qed.

Lemma fits_with_off {A} v o (p : list A) : Fits v p -> Fits (with_off v o) p.
Proof. intros [H|H]; [left|right]; exact H. Qed.

Lemma clean_rich_seq k v p : clean k p -> clean k (rich_seq v p).
Proof.
  unfold clean. rewrite !Forall_forall. intros H x Hx. apply H.
  unfold rich_seq in Hx. destruct (rich_bounds v). exact (py_slice_In _ _ _ _ _ Hx).
Qed.

(** what [seq_of_dict] returns for an encoder-written dict is again [seq_ok] *)
Lemma seq_decoded_ok st s d s' : seq_ok s -> seq_to_dict st s = JObj d -> seq_of_dict st d = Ok s' -> seq_ok s'.
Proof.
  intros [[Hwf Hfit] Hclean] Hd. unfold seq_to_dict in Hd. injection Hd as <-.
  destruct s as [[v p k hid] nm inf]. cbn [s_core s_name s_info sv parent skind] in *.
  set (L := zlen (rich_seq v p)). assert (HL : 0 <= L) by apply zlen_nonneg. pose proof (wf_step_nz v Hwf) as Hc.
  pose proof (clean_rich_seq k v p Hclean) as Hcs.
  destruct st; cbn [seq_of_dict].
  - (* old style *)
    unfold seq_of_dict_old. jget_simpl. cbn [get_str bind]. rewrite kind_of_label_of. cbn [bind].
    destruct (view_to_dict SOld v p nm) as [| | | | |vd|] eqn:Evd; try discriminate.
    cbn [get_obj bind]. rewrite (view_decode_old SOld v p nm vd Hwf Evd). cbn [bind].
    rewrite get_opt_str_jopt. cbn [bind]. rewrite info_roundtrip. cbn [bind get_int_default]. fold L.
    destruct k; cbn [coerce_view].
    + rewrite (copy_view_rebased L (step v) 0 HL Hc). cbn [bind].
      rewrite (copy_view_norm_rebased L (step v) 0 HL Hc). cbn [bind].
      rewrite (hand_over_zero _ _ (offset_norm_rebased _ _ _)). cbn [bind]. intros [= <-].
      rewrite (clean_segment KDna v p Hclean). split; cbn [s_core sv parent skind]; [|exact Hcs].
      split; cbn [sv parent]; [apply wf_with_off, wf_norm_rebased; assumption|apply fits_with_off, fits_norm_rebased; reflexivity].
    + rewrite (copy_view_rebased L (step v) 0 HL Hc). cbn [bind].
      rewrite (copy_view_norm_rebased L (step v) 0 HL Hc). cbn [bind].
      rewrite (hand_over_zero _ _ (offset_norm_rebased _ _ _)). cbn [bind]. intros [= <-].
      rewrite (clean_segment KRna v p Hclean). split; cbn [s_core sv parent skind]; [|exact Hcs].
      split; cbn [sv parent]; [apply wf_with_off, wf_norm_rebased; assumption|apply fits_with_off, fits_norm_rebased; reflexivity].
    + cbn [bind]. rewrite (hand_over_zero _ _ (offset_rebased _ _ _)). cbn [bind]. intros [= <-].
      split; cbn [s_core sv parent skind]; [|exact Hcs].
      split; cbn [sv parent]; [apply wf_with_off, wf_rebased; assumption|].
      apply fits_with_off. right. rewrite seq_len_rebased. reflexivity.
  - (* new style *)
    unfold seq_of_dict_new. jget_simpl. cbn [get_str bind]. rewrite kind_of_label_of. cbn [bind].
    unfold view_to_dict. cbn [get_obj bind]. jget_simpl. cbn [get_obj bind]. jget_simpl. cbn [get_str get_int bind].
    rewrite get_opt_str_jopt. cbn [bind]. rewrite info_roundtrip. cbn [bind get_int_default]. fold L.
    rewrite mk_view_none_step, (mk_view_rebased L 1 _ HL ltac:(lia)). cbn [bind].
    unfold rebased at 1. replace (0 <? 1) with true by reflexivity.
    destruct (Z_lt_le_dec 0 L) as [Hp|Hz].
    + replace (0 <? L) with true by lia. rewrite (getitem_full_step L (step v) _ Hp Hc). cbn [bind]. intros [= <-].
      split; cbn [s_core sv parent skind]; [|exact Hcs].
      split; cbn [sv parent]; [apply wf_rebased; assumption|right; rewrite seq_len_rebased; reflexivity].
    + assert (HL0 : L = 0) by lia. replace (0 <? L) with false by lia.
      replace (getitem_slice FSeqView (mkV 0 0 1 L (parent_start v)) None None (Some (step v))) with (Ok (mkV 0 0 1 L (parent_start v))).
      2:{ unfold getitem_slice. replace (vlen (mkV 0 0 1 L (parent_start v)) =? 0) with true by reflexivity. reflexivity. }
      cbn [bind]. intros [= <-]. split; cbn [s_core sv parent skind]; [|exact Hcs].
      split; cbn [sv parent]; [unfold WF; cbn; lia|left; reflexivity].
Qed.

(** hence a second (third, ...) round trip is observed equal to the original as well *)
Lemma seq_roundtrip_twice_lemma st s d s1 d1 : seq_ok s -> seq_to_dict st s = JObj d -> seq_of_dict st d = Ok s1 ->
  seq_to_dict st s1 = JObj d1 ->
  exists s2, seq_of_dict st d1 = Ok s2 /\ observe_seq s2 = observe_seq s /\ seq_ok s2.
Proof.
  intros Hok Hd Hdec Hd1.
  pose proof (seq_decoded_ok st s d s1 Hok Hd Hdec) as Hok1.
  destruct (seq_roundtrip_lemma st s d Hok Hd) as (s1' & Hdec' & Hobs1). rewrite Hdec in Hdec'. injection Hdec' as <-.
  destruct (seq_roundtrip_lemma st s1 d1 Hok1 Hd1) as (s2 & Hdec2 & Hobs2).
  exists s2. split; [exact Hdec2|]. split; [congruence|]. exact (seq_decoded_ok st s1 d1 s2 Hok1 Hd1 Hdec2).
Qed.

(** * non-vacuity of the guards of the field-copying types *)

Definition ex_table : table :=
  mkTab (Some [97]) [(k_title, JStr [84]); (k_legend, JStr [])]
        [ mkCol [97] [105; 110; 116; 54; 52] [JInt 3; JInt 1];
          mkCol [98; 32; 99] [102; 108; 111; 97; 116; 54; 52] [JFloat [50; 46; 53]; JFloat [49; 101; 45; 48; 57]];
          mkCol [100] [111; 98; 106; 101; 99; 116] [JStr [120]; JNull] ].

Lemma ex_table_ok : table_okb ex_table = true.
Proof. vm_compute. reflexivity. Qed.

Definition ex_darr : darr :=
  mkDarr [[JStr [97]; JStr [98]]; [JStr [120]; JStr [121]; JStr [122]]]
         (JArr [JArr [JInt 1; JInt 2; JInt 3]; JArr [JInt 4; JInt 5; JInt 6]]).

Lemma ex_darr_ok : darr_okb ex_darr = true.
Proof. vm_compute. reflexivity. Qed.

Lemma ex_nc_ok : nc_okb (mkNC [JStr [69]; JStr [109; 101]; JStr [98; 97; 100]] [(k_source, JStr [120])]) = true.
Proof. vm_compute. reflexivity. Qed.

Lemma ex_tree_ok : NewickMoreProofs.rt_ok_json NewickMoreProofs.ex_tree_json = true.
Proof. exact NewickMoreProofs.ex_tree_json_ok. Qed.

(** the boundary value [index_name = ""] (what [DictArray.to_table()] produces) is a value, not "no index" *)
Definition ex_table_empty_index : table :=
  mkTab (Some []) [(k_title, JStr [])]
        [ mkCol [] [85; 51; 50] [JStr [97]; JStr [98]]; mkCol [120] [105; 110; 116; 54; 52] [JInt 0; JInt 1] ].

Lemma empty_index_name_kept_lemma :
  table_okb ex_table_empty_index = true /\
  forall d, table_to_dict ex_table_empty_index = JObj d ->
    exists t', table_of_dict d = Ok t' /\ t_index t' = Some [] /\ t_index t' <> None /\
      observe_table t' = observe_table ex_table_empty_index.
Proof.
  split; [vm_compute; reflexivity|]. intros d Hd.
  destruct (table_roundtrip_lemma ex_table_empty_index d ltac:(vm_compute; reflexivity) Hd) as (t' & Hdec & Hobs & _).
  exists t'. split; [exact Hdec|]. unfold observe_table in Hobs.
  assert (Hi : t_index t' = Some []) by (injection Hobs as H1 _ _; exact H1).
  split; [exact Hi|]. split; [rewrite Hi; discriminate|exact Hobs].
Qed.

(** non-vacuity: a db with a record in each table, attached to a sliced reverse-complemented sequence *)
Definition ex_rows : list AnnotDb.row :=
  [ AnnotDb.Build_row 1 (Some [115]) (Some [103; 101; 110; 101]) (Some [103]) (Some [45]) None (Some false) [(2, 6); (8, 10)] 2 10;
    AnnotDb.Build_row 0 (Some [115]) (Some [67; 68; 83]) None None (Some [73; 68; 61; 120]) None [(0, 3)] 0 3 ].

Lemma ex_db_ok : db_ok [0; 1] ex_rows.
Proof.
  split; [reflexivity|]. split.
  - constructor; [intros [H|[]]; discriminate|constructor; [intros []|constructor]].
  - intros r [<-|[<-|[]]]; cbn; auto.
Qed.

Lemma ex_seq_db_ok :
  obj_ok (OSeqDb (mkSeq (mkS (mkV (-1) (-4) (-1) 5 2) [65; 67; 71; 84; 65] KDna true) (Some [115]) []) [0; 1] ex_rows).
Proof.
  split; [|split; [exact ex_db_ok|discriminate]]. split.
  - split; [unfold WF; cbn; lia|right; reflexivity].
  - repeat constructor.
Qed.
