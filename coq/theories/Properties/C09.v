(** C09 — Tree transformations preserve tips, topology and path lengths.
    Only theorem statements; every proof is [exact <lemma>].

    [pathlen dflt t a b] (Spec/TreeSpec.v) is the tip-to-tip path length: the sum
    of the lengths of the edges whose removal separates [a] from [b] (a missing
    length counts [dflt]; the code uses 1).  Trees are rose trees with optional
    lengths: polytomies, single-child nodes and missing lengths are covered
    unless a hypothesis says otherwise.  Non-vacuity of every hypothesis:
    Proofs/TreeExtra.v, [ex_hyps] and the examples after it. *)
From Coq Require Import Permutation.
From CG3 Require Import Lib.PyZ Lib.Rose Model.Tree Model.TreeMid Spec.TreeSpec
  Proofs.TreeProofs Proofs.TreeSubProofs Proofs.TreeExtra Proofs.TreeMidProofs Proofs.TreeChain
  Proofs.NewickProofs Proofs.NewickMoreProofs Model.TreeJson Model.TreeDist Proofs.TreeDistProofs
  Spec.TreeTopoSpec Proofs.TopoBase Proofs.TopoReroot Proofs.TopoOps Proofs.TopoSub Proofs.TopoChain
  Model.TreeRemove Proofs.TreeRemoveProofs.

(** ---- the distance is a (pseudo-)metric on the tips *)
Theorem dist_symmetric : forall dflt t a b, pathlen dflt t a b = pathlen dflt t b a.
Proof. exact TreeProofs.pathlen_sym. Qed.

Theorem dist_zero_diagonal : forall dflt t a, pathlen dflt t a a = 0.
Proof. exact pathlen_diag. Qed.

Theorem dist_nonneg : forall t a b, nonneg_lens t = true -> 0 <= pathlen 1 t a b.
Proof. exact (fun t a b H => pathlen_nonneg 1 t a b (nonneg_lens_wnonneg t H)). Qed.

Theorem dist_triangle : forall t a b c,
  nonneg_lens t = true -> pathlen 1 t a c <= pathlen 1 t a b + pathlen 1 t b c.
Proof. exact (fun t a b c H => pathlen_triangle 1 t a b c (nonneg_lens_wnonneg t H)). Qed.

(** the model of the code's [_get_distances] / [get_distances()] computes exactly the path length *)
Theorem get_distances_is_path_length : forall dflt t a b,
  NoDup (tips t) -> In a (tips t) -> In b (tips t) -> a <> b ->
  get_distance dflt t a b = Some (pathlen dflt t a b).
Proof. exact get_distance_is_pathlen. Qed.

(** ---- re-rooting: [unrooted_deepcopy] started at ANY internal node of ANY tree *)
Theorem reroot_preserves_tips_and_dists : forall dflt t path x r a b,
  subtree_at t path = Some x -> kids x <> [] ->
  ((2 <= length (kids t))%nat \/ (path = [] /\ kids t <> [])) ->
  NoDup (tips t) -> In a (tips t) -> In b (tips t) ->
  reroot_go t path None = Some r ->
  Permutation (tips r) (tips t) /\ pathlen dflt r a b = pathlen dflt t a b.
Proof. exact reroot_preserves. Qed.

Theorem rooted_at_preserves_tips_and_dists : forall dflt t nm r a b,
  (2 <= length (kids t))%nat -> NoDup (tips t) -> In a (tips t) -> In b (tips t) ->
  rooted_at t nm = Ok r ->
  Permutation (tips r) (tips t) /\ pathlen dflt r a b = pathlen dflt t a b.
Proof. exact rooted_at_preserves. Qed.

Theorem rooted_with_tip_preserves_tips_and_dists : forall dflt t nm r a b,
  (2 <= length (kids t))%nat -> NoDup (tips t) -> In a (tips t) -> In b (tips t) ->
  rooted_with_tip t nm = Ok r ->
  Permutation (tips r) (tips t) /\ pathlen dflt r a b = pathlen dflt t a b.
Proof. exact rooted_with_tip_preserves. Qed.

(** ... and so does what [get_distances()] reports *)
Theorem rooted_at_preserves_get_distances : forall dflt t nm r a b,
  (2 <= length (kids t))%nat -> NoDup (tips t) -> In a (tips t) -> In b (tips t) -> a <> b ->
  rooted_at t nm = Ok r ->
  get_distance dflt r a b = get_distance dflt t a b.
Proof. exact rooted_at_get_distance. Qed.

(** ---- sorted(): children are only permuted, at every level *)
Theorem sorted_preserves_tips_and_dists : forall dflt t order a b,
  Permutation (tips (tree_sorted t order)) (tips t) /\
  pathlen dflt (tree_sorted t order) a b = pathlen dflt t a b.
Proof. exact sorted_preserves. Qed.

(** ---- unrooted(): the statement, FALSE of the code as pinned ... *)
Definition stmt_unrooted_dists : Prop := forall t a b,
  pos_lens t = true -> NoDup (tips t) -> In a (tips t) -> In b (tips t) ->
  pathlen 1 (unrooted t) a b = pathlen 1 t a b.

Theorem unrooted_dists_refuted : exists t a b,
  NoDup (tips t) /\ In a (tips t) /\ In b (tips t) /\ pos_lens t = true /\
  pathlen 1 (unrooted t) a b <> pathlen 1 t a b.
Proof. exact unrooted_current_refuted. Qed.

(** ... and true of the repaired one (notes/proposed_fixes/C09-1.diff) *)
Theorem unrooted_fixed_preserves_tips_and_dists : forall dflt t a b,
  has_lens t = true -> NoDup (tips t) -> In a (tips t) -> In b (tips t) ->
  Permutation (tips (unrooted_fixed t)) (tips t) /\
  pathlen dflt (unrooted_fixed t) a b = pathlen dflt t a b.
Proof. exact unrooted_fixed_preserves. Qed.

(** ---- get_sub_tree(names, tipsonly=True): kept tips, and every path length among them.
    [get_sub_tree_core] is everything before the final "keep unrooted" step. *)
Theorem sub_tree_core_preserves_tips_and_dists : forall dflt t S im kr r a b,
  pos_lens t = true ->
  get_sub_tree_core t S im kr true = Ok r ->
  In a S -> In b S -> In a (tips t) -> In b (tips t) ->
  tips r = filter (fun n => memb n S) (tips t) /\
  pathlen dflt r a b = pathlen dflt t a b /\ pos_lens r = true.
Proof. exact sub_tree_core_preserves. Qed.

(** the whole get_sub_tree, current code: FALSE (it ends in the current unrooted()) *)
Theorem sub_tree_dists_refuted : exists t S r a b,
  pos_lens t = true /\ NoDup (tips t) /\
  get_sub_tree_v false t S false false true = Ok r /\
  In a S /\ In b S /\ In a (tips t) /\ In b (tips t) /\
  pathlen 1 r a b <> pathlen 1 t a b.
Proof. exact sub_tree_current_refuted. Qed.

(** the whole get_sub_tree with the repaired unrooted() *)
Theorem sub_tree_fixed_preserves_tips_and_dists : forall dflt t S im kr r a b,
  pos_lens t = true -> NoDup (tips t) ->
  get_sub_tree_v true t S im kr true = Ok r ->
  In a S -> In b S -> In a (tips t) -> In b (tips t) ->
  Permutation (tips r) (filter (fun n => memb n S) (tips t)) /\
  pathlen dflt r a b = pathlen dflt t a b.
Proof. exact sub_tree_fixed_preserves. Qed.

(** ---- PhyloNode.prune(): single-child nodes dissolved, lengths added *)
Theorem prune_preserves_tips_and_dists : forall dflt t a b,
  has_lens t = true ->
  Permutation (tips (prune t)) (tips t) /\ pathlen dflt (prune t) a b = pathlen dflt t a b.
Proof. exact prune_preserves. Qed.

Theorem prune_leaves_no_single_child_node : forall t, no_unary (prune t) = true.
Proof. exact prune_no_unary. Qed.

(** ---- root_at_midpoint.  The model works on the tree with all lengths doubled
    ([double], so that half the largest distance is an integer); the result [r]
    and the receiver-afterwards [o] are in doubled units.  [fx = false] is the
    pinned code, [fx = true] the repaired one (notes/proposed_fixes/C09-2.diff). *)
Theorem midpoint_preserves_tips_and_dists : forall fx dflt t r o a b,
  (2 <= length (kids t))%nat -> NoDup (tips t) -> ~ In [] (tips t) ->
  In a (tips t) -> In b (tips t) ->
  root_at_midpoint fx t = Ok (r, o) ->
  Permutation (tips r) (tips t) /\ pathlen (2 * dflt) r a b = 2 * pathlen dflt t a b.
Proof. exact midpoint_preserves. Qed.

(** "returns a new tree, receiver untouched": FALSE of the pinned code ... *)
Definition stmt_midpoint_pure : Prop := forall t r o,
  root_at_midpoint false t = Ok (r, o) -> o = double t.

Theorem midpoint_pure_refuted : exists t r o,
  root_at_midpoint false t = Ok (r, o) /\ o <> double t /\
  (2 <= length (kids t))%nat /\ NoDup (tips t).
Proof. exact midpoint_current_not_pure. Qed.

(** ... true of the repaired one; and even the pinned code's edit of the receiver keeps its path lengths *)
Theorem midpoint_fixed_is_pure : forall t r o, root_at_midpoint true t = Ok (r, o) -> o = double t.
Proof. exact midpoint_fixed_pure. Qed.

Theorem midpoint_receiver_keeps_dists : forall fx dflt t r o a b,
  root_at_midpoint fx t = Ok (r, o) -> pathlen (2 * dflt) o a b = 2 * pathlen dflt t a b.
Proof. exact midpoint_receiver_dists. Qed.

(** ---- bifurcating(): polytomies resolved with zero-length edges *)
Theorem bifurcating_preserves_tips : forall t, tips (bifurcating t) = tips t.
Proof. exact bifurcating_tips. Qed.

Theorem bifurcating_preserves_dists : forall dflt t a b,
  pathlen dflt (bifurcating t) a b = pathlen dflt t a b.
Proof. exact bifurcating_pathlen. Qed.

(** ---- histories: any chain of re-rootings / sortings / repaired unrootings / prunings
    ([tsteps], Proofs/TreeChain.v; each step's own precondition is a premise of its constructor) *)
Theorem compositions_preserve_tips_and_dists : forall t v, tsteps t v ->
  NoDup (tips t) -> forall dflt a b, In a (tips t) -> In b (tips t) ->
  Permutation (tips v) (tips t) /\ pathlen dflt v a b = pathlen dflt t a b.
Proof. exact chain_preserves. Qed.

(** ---- UNROOTED TOPOLOGY (Spec/TreeTopoSpec.v).  [cuts t] = the tip set below every non-root node (one per
    edge); two tip subsets are the same split of the tip set U when equal as sets or complementary in U
    ([cut_eq]); [same_topology t1 t2]: every NON-TRIVIAL split (>= 2 tips on each side) of t1 is a split of t2
    and conversely (set equality up to complement; single-child nodes, which repeat their child's split, and
    trivial splits do not count).  The executable [splits] is what the correspondence compares with the oracle. *)
Theorem same_topology_is_equality_of_split_sets : forall t1 t2,
  same_topology t1 t2 <->
  (forall c, In c (splits t1) -> cut_mem (tips t1) (cuts t2) c = true) /\
  (forall c, In c (filter (nontrivial (tips t1)) (cuts t2)) -> cut_mem (tips t1) (cuts t1) c = true).
Proof. exact same_topology_iff_splits. Qed.

Theorem same_topology_equivalence : forall t1 t2 t3,
  seteq (tips t1) (tips t2) -> seteq (tips t2) (tips t3) ->
  same_topology t1 t1 /\ (same_topology t1 t2 -> same_topology t2 t1) /\
  (same_topology t1 t2 -> same_topology t2 t3 -> same_topology t1 t3).
Proof. exact (fun t1 t2 t3 H12 H23 => conj (same_topology_refl t1) (conj (same_topology_sym t1 t2 H12) (same_topology_trans t1 t2 t3 H12 H23))). Qed.

Theorem reroot_preserves_topology : forall t path x r,
  subtree_at t path = Some x -> kids x <> [] ->
  ((2 <= length (kids t))%nat \/ (path = [] /\ kids t <> [])) ->
  NoDup (tips t) -> reroot_go t path None = Some r -> same_topology t r.
Proof. exact reroot_topology. Qed.

Theorem rooted_at_preserves_topology : forall t nm r,
  (2 <= length (kids t))%nat -> NoDup (tips t) -> rooted_at t nm = Ok r -> same_topology t r.
Proof. exact rooted_at_topology. Qed.

Theorem rooted_with_tip_preserves_topology : forall t nm r,
  (2 <= length (kids t))%nat -> NoDup (tips t) -> rooted_with_tip t nm = Ok r -> same_topology t r.
Proof. exact rooted_with_tip_topology. Qed.

Theorem sorted_preserves_topology : forall t order, same_topology t (tree_sorted t order).
Proof. exact sorted_topology. Qed.

Theorem unrooted_preserves_topology : forall t, NoDup (tips t) -> same_topology t (unrooted_fixed t).
Proof. exact unrooted_fixed_topology. Qed.

Theorem prune_preserves_topology : forall t, same_topology t (prune t).
Proof. exact prune_topology. Qed.

(** bifurcating(): every original split is kept; every edge of the result either carries an original
    tip set or is one of the added edges, whose length is 0 *)
Theorem bifurcating_keeps_every_split : forall t,
  incl (cuts t) (cuts (bifurcating t)) /\ splits_incl (tips t) (cuts t) (cuts (bifurcating t)).
Proof. exact (fun t => conj (bifurcating_keeps_splits t) (bifurcating_refines_topology t)). Qed.

Theorem bifurcating_added_edges_have_length_zero : forall t x,
  In x (flat_map nodes (kids (bifurcating t))) -> In (tips x) (cuts t) \/ tlen x = Some 0.
Proof. exact bifurcating_new_edges_zero. Qed.

(** get_sub_tree (tipsonly): the splits of the result are exactly the splits of the original restricted
    to the kept names, the non-trivial ones ([restricted_topology]); core, and whole repaired method *)
Theorem sub_tree_core_restricts_topology : forall t S im kr r,
  pos_lens t = true -> get_sub_tree_core t S im kr true = Ok r -> restricted_topology S t r.
Proof. exact sub_tree_core_topology. Qed.

Theorem sub_tree_restricts_topology : forall t S im kr r,
  pos_lens t = true -> NoDup (tips t) ->
  get_sub_tree_v true t S im kr true = Ok r -> restricted_topology S t r.
Proof. exact sub_tree_topology. Qed.

Theorem sub_tree_keeping_all_tips_preserves_topology : forall t S im kr r,
  pos_lens t = true -> get_sub_tree_core t S im kr true = Ok r ->
  (forall n, In n (tips t) -> In n S) -> same_topology t r.
Proof. exact sub_tree_all_tips_topology. Qed.

(** root_at_midpoint: the result, and the (possibly edited) receiver *)
Theorem midpoint_preserves_topology : forall fx t r o,
  (2 <= length (kids t))%nat -> NoDup (tips t) -> ~ In [] (tips t) ->
  root_at_midpoint fx t = Ok (r, o) -> same_topology t r.
Proof. exact midpoint_topology. Qed.

Theorem midpoint_receiver_keeps_topology : forall fx t r o,
  root_at_midpoint fx t = Ok (r, o) -> same_topology t o.
Proof. exact midpoint_receiver_topology. Qed.

(** histories: the same chains as in [compositions_preserve_tips_and_dists] *)
Theorem compositions_preserve_topology : forall t v, tsteps t v -> NoDup (tips t) ->
  Permutation (tips v) (tips t) /\ same_topology t v.
Proof. exact chain_topology. Qed.

(** ---- in-place pruning to a subset of tips: [remove_deleted(lambda n: n.name in D)] (Model/TreeRemove.v: a deleted
    node goes with everything below it, then every ancestor left childless is climbed away), alone and followed
    by [prune()].  [internal_free D t]: only tips are named in D (the usual call). *)
Theorem remove_deleted_preserves_tips_and_dists : forall dflt D t a b,
  internal_free D t = true -> kids t <> [] ->
  (exists x, In x (tips t) /\ ~ In x D) ->
  ~ In a D -> ~ In b D ->
  tips (remove_deleted D t) = filter (fun n => negb (memb n D)) (tips t) /\
  pathlen dflt (remove_deleted D t) a b = pathlen dflt t a b.
Proof. exact remove_deleted_preserves. Qed.

(** no spurious tips: everything left below the root that looks like a tip IS a kept original tip *)
Theorem remove_deleted_leaves_no_new_tip : forall D t,
  internal_free D t = true -> forall x, In x (tips_of (kids (remove_deleted D t))) -> In x (tips t) /\ ~ In x D.
Proof. exact remove_deleted_no_new_tip. Qed.

Theorem remove_deleted_then_prune_preserves_tips_and_dists : forall dflt D t a b,
  has_lens t = true -> internal_free D t = true -> kids t <> [] ->
  (exists x, In x (tips t) /\ ~ In x D) -> ~ In a D -> ~ In b D ->
  Permutation (tips (prune (remove_deleted D t))) (filter (fun n => negb (memb n D)) (tips t)) /\
  pathlen dflt (prune (remove_deleted D t)) a b = pathlen dflt t a b.
Proof. exact remove_deleted_then_prune_preserves. Qed.

(** topology: the splits of the result are the splits of the original restricted to the kept tips *)
Theorem remove_deleted_then_prune_restricts_topology : forall D t,
  has_lens t = true -> internal_free D t = true -> kids t <> [] ->
  (exists x, In x (tips t) /\ ~ In x D) ->
  splits_eq (tips (prune (remove_deleted D t))) (map (filter (kept D)) (cuts t)) (cuts (prune (remove_deleted D t))).
Proof. exact remove_deleted_then_prune_topology. Qed.

(** ---- newick: writing a tree ([get_newick], names escaped, with lengths) and parsing the text
    back ([make_tree], underscore_unmunge = True: tokeniser + parser + TreeBuilder naming) is the
    identity on structure, names and lengths.  [rt_ok] (Proofs/NewickProofs.v) is the computable
    guard the proof needs: root named "root"; non-root names non-empty, pairwise distinct, not
    "edge", not starting with a single quote, without newline, not a one-character punctuation
    token, and (if written unquoted) not beginning/ending with white space other than blank.
    Lengths are arbitrary (missing, zero, negative).  Example: [NewickProofs.ex_tree_ok]. *)
Theorem newick_roundtrip_identity : forall t, rt_ok t = true -> newick_roundtrip true t = Ok t.
Proof. exact newick_roundtrip_id. Qed.

Theorem newick_length_text_roundtrip : forall z, parse_Z (dec z) = Some z.
Proof. exact parse_Z_dec. Qed.

(** the same with make_tree's default underscore_unmunge = False: additionally a name that is written
    unquoted must not contain a blank ([rt_ok_nu]; blanks are written as underscores and stay underscores) *)
Theorem newick_roundtrip_identity_no_unmunge : forall t, rt_ok_nu t = true -> newick_roundtrip false t = Ok t.
Proof. exact newick_roundtrip_id_nounmunge. Qed.

(** ---- JSON (rich dict) round trip with the REPAIRED writer (notes/proposed_fixes/C09-4.diff: names escaped,
    blanks quoted).  The pinned writer emits names unescaped and is refuted by the check's oracle
    (a tip named "a,b" reads back as two tips). *)
Theorem json_roundtrip_fixed_identity : forall t, rt_ok_json t = true -> json_roundtrip_fixed t = Ok t.
Proof. exact json_roundtrip_fixed_id. Qed.

(** the PINNED JSON writer (names unescaped): FALSE even on a tree the repaired writer round-trips *)
Theorem json_roundtrip_current_refuted : exists t t',
  rt_ok_json t = true /\ json_roundtrip t = Ok t' /\ t' <> t /\ length (tips t') <> length (tips t).
Proof. exact json_current_refuted. Qed.

(** outside [rt_ok]: a label spelled like a punctuation token is silently mis-read by the pinned parser
    (found by the proof attempt; notes/proposed_fixes/C09-5.diff) *)
Theorem newick_punctuation_label_roundtrip_refuted : exists t t',
  newick_roundtrip true t = Ok t' /\ t' <> t /\ length (tips t') <> length (tips t) /\
  NoDup (map tname (nodes t)).
Proof. exact newick_punctuation_label_refuted. Qed.

(** ---- Robinson-Foulds distances (Model/TreeDist.v): symmetric, zero exactly for equal topologies,
    equal to an independent split-set count.  Equal rooted topology = same clade sets ([same_clades]);
    equal unrooted topology = same bipartitions of the tip set ([same_splits]). *)
Theorem rooted_rf_symmetric : forall t1 t2, rooted_rf t1 t2 = rooted_rf t2 t1.
Proof. exact rooted_rf_sym. Qed.

Theorem rooted_rf_zero_iff_same_clades : forall t1 t2 d, rooted_rf t1 t2 = Ok d -> (d = 0 <-> same_clades t1 t2).
Proof. exact rooted_rf_zero_iff. Qed.

Theorem rooted_rf_is_clade_symdiff : forall t1 t2 d, rooted_rf t1 t2 = Ok d ->
  d = Z.of_nat (length (filter (fun c => negb (smemb c (leaf_sets_below t2))) (sdedupe (leaf_sets_below t1))))
    + Z.of_nat (length (filter (fun c => negb (smemb c (leaf_sets_below t1))) (sdedupe (leaf_sets_below t2)))).
Proof. exact rooted_rf_is_symdiff. Qed.

Theorem unrooted_rf_symmetric : forall t1 t2, unrooted_rf t1 t2 = unrooted_rf t2 t1.
Proof. exact unrooted_rf_sym_gen. Qed.

Theorem unrooted_rf_zero_iff_same_splits : forall t1 t2 d,
  unrooted_rf t1 t2 = Ok d -> (d = 0 <-> same_splits (tips t1) t1 t2).
Proof. exact unrooted_rf_zero_iff_gen. Qed.

(** the count does not depend on the reference tip the code normalises with *)
Theorem unrooted_rf_is_split_symdiff : forall t1 t2 d, unrooted_rf t1 t2 = Ok d ->
  d = Z.of_nat (length (filter (fun c => negb (has_split (tips t1) (subsets t2) c)) (gdedupe (same_split (tips t1)) (subsets t1))))
    + Z.of_nat (length (filter (fun c => negb (has_split (tips t1) (subsets t1) c)) (gdedupe (same_split (tips t1)) (subsets t2)))).
Proof. exact unrooted_rf_is_splitdiff. Qed.

Theorem tree_distance_rf_symmetric : forall t1 t2, tree_distance_rf t1 t2 = tree_distance_rf t2 t1.
Proof. exact tree_distance_rf_sym_gen. Qed.

(** ---- not proved here (see the check's `partial` list): the pinned JSON writer; Lin-Rajan-Moret and
    matching-cluster distances (oracle only). *)

