(** C10 - Every serialisable object round-trips, whatever state it is in.
    Only theorem statements; every proof is [exact <lemma>].

    Model/Serial.v transcribes the serialisers whose result depends on the object's HISTORY (the
    re-basing ones): [SeqView.to_rich_dict]/[from_rich_dict], [Sequence.to_rich_dict] and both
    deserialisers ([deserialise_seq] of util/deserialise.py, new-style [Sequence.from_rich_dict]),
    [IndelMap], [Aligned], [Alignment] dicts, over a small JSON datatype, and the type-keyed registry
    ([deserialise_object]: first registered key that is a substring of the "type" value).
    The view kernel is Model/View.v (C01), the gap map Model/IndelMap.v (C08).
    Spec/SerialSpec.v says what is observed of an object: string, length, parent coordinates
    (start, stop, strand of a non-empty sequence), moltype, name, info, gap mask / gapped string.

    For the remaining registered types (tables, dict arrays, distance matrices, alphabets, moltypes,
    trees, substitution models, likelihood functions, app results, NotCompleted, annotation dbs,
    feature maps) the serialiser copies fields without any dependence on the history; they are
    checked against the real code by the correspondence/oracle stage (harness/props/c10.py), not by
    a theorem - see [stmt_full_property] below. *)
From CG3 Require Import Lib.PyZ Lib.Val Lib.PySlice Model.View Spec.ViewSpec.
From CG3 Require Import Model.Serial Spec.SerialSpec Proofs.SerialProofs.
From CG3 Require Model.IndelMap Spec.IndelMapSpec.
From CG3 Require Lib.Rose Model.Tree Model.TreeJson Proofs.NewickMoreProofs.
From Coq Require Import Permutation.

(** * (1) sequences and views *)

(** one well-formed state, OLD style: [deserialise_seq(seq.to_rich_dict())] is observed equal to [seq]
    (string incl. complement of a reversed view, length, parent start/stop/strand, moltype, name, info).
    [seq_ok]: the view is well formed, fits its parent string, and the string is in its moltype's spelling. *)
Theorem seq_roundtrip_old : forall s d, seq_ok s -> seq_to_dict SOld s = JObj d ->
  exists s', seq_of_dict_old d = Ok s' /\ observe_seq s' = observe_seq s.
Proof. exact seq_roundtrip_old_lemma. Qed.

(** NEW style: [Sequence.from_rich_dict(seq.to_rich_dict())] *)
Theorem seq_roundtrip_new : forall s d, seq_ok s -> seq_to_dict SNew s = JObj d ->
  exists s', seq_of_dict_new d = Ok s' /\ observe_seq s' = observe_seq s.
Proof. exact seq_roundtrip_new_lemma. Qed.

(** HEADLINE (histories): for EVERY sequence string, annotation offset and chain of slice / index / rc /
    to_rna / to_dna / copy operations of any depth, under either implementation, the rich dict of the
    resulting object reads back as an object that is observed equal.  (Lifts the C01 view theorems over
    [fold_left]; [clean]/[no_lower]: the initial string is upper-case and in its moltype's spelling, which
    is what [make_seq] produces.) *)
Theorem seq_roundtrip_every_history : forall st k p off ops s0 nm inf d,
  init_seq k p off = Ok s0 -> clean k p -> no_lower p ->
  seq_to_dict st (mkSeq (run_ops (impl_of st) s0 ops) nm inf) = JObj d ->
  exists s', seq_of_dict st d = Ok s' /\
    observe_seq s' = observe_seq (mkSeq (run_ops (impl_of st) s0 ops) nm inf).
Proof. exact seq_roundtrip_reachable_lemma. Qed.

(** the decoded sequence is itself a covered state, so the round trip can be iterated (idempotence up to
    observation): the object read back from a second serialisation is still observed equal to the ORIGINAL *)
Theorem seq_decoded_state_is_covered : forall st s d s', seq_ok s -> seq_to_dict st s = JObj d ->
  seq_of_dict st d = Ok s' -> seq_ok s'.
Proof. exact seq_decoded_ok. Qed.

Theorem seq_roundtrip_twice : forall st s d s1 d1, seq_ok s -> seq_to_dict st s = JObj d -> seq_of_dict st d = Ok s1 ->
  seq_to_dict st s1 = JObj d1 ->
  exists s2, seq_of_dict st d1 = Ok s2 /\ observe_seq s2 = observe_seq s /\ seq_ok s2.
Proof. exact seq_roundtrip_twice_lemma. Qed.

(** the invariant that makes the above work is kept by every operation (whether it succeeds or raises) *)
Theorem history_invariant : forall i ops s, inv s -> inv (run_ops i s ops).
Proof. exact inv_run_ops. Qed.

(** the hypotheses are met by a concrete non-trivial history (slice, rc, strided slice with an offset) *)
Theorem history_example :
  exists s0, init_seq KDna [65; 67; 71; 71; 84; 84; 65; 65; 67; 67] 3 = Ok s0 /\
    clean KDna [65; 67; 71; 71; 84; 84; 65; 65; 67; 67] /\ no_lower [65; 67; 71; 71; 84; 84; 65; 65; 67; 67] /\
    let s := run_ops OldStyle s0 [Slice (Some 1) (Some 9) None; Rc; Slice None None (Some 2)] in
    realise s = [71; 84; 65; 67] /\ parent_coords s = (4, 12, -1).
Proof. exact example_reachable. Qed.

(** a bare (old-style, registered) [SeqView]: displayed string, length, strand and segment length survive ... *)
Theorem seqview_roundtrip : forall v p sid d, WF v -> Fits v p -> view_to_dict SOld v p sid = JObj d ->
  exists v' sg, view_of_dict_old d = Ok (v', sg, sid) /\ offset v' = 0 /\ observe_view v' sg = observe_view v p.
Proof. exact view_roundtrip_lemma. Qed.

(** ... but NOT its position on the parent: the faithful model of [SeqView.to_rich_dict]/[from_rich_dict]
    loses parent_start (finding C10-F2; inside a [Sequence] the position travels as [annotation_offset]) *)
Theorem seqview_position_refuted :
  exists v p sid d v' sg, WF v /\ Fits v p /\ view_to_dict SOld v p sid = JObj d /\
    view_of_dict_old d = Ok (v', sg, sid) /\ parent_start v' <> parent_start v.
Proof. exact seqview_position_refuted_lemma. Qed.

(** * (2) indel maps, aligned rows, alignments *)

Theorem imap_roundtrip : forall m d, IndelMapSpec.WF m -> imap_to_dict m = JObj d -> imap_of_dict d = Ok m.
Proof. exact imap_roundtrip_lemma. Qed.

(** every gap layout: the map of ANY gapped string ... *)
Theorem imap_roundtrip_every_layout : forall (k : list bool) d,
  imap_to_dict (IndelMap.from_mask k) = JObj d -> imap_of_dict d = Ok (IndelMap.from_mask k).
Proof. exact imap_roundtrip_layout. Qed.

(** ... and every slice of it (which denotes the sliced gapped string, C08) *)
Theorem imap_roundtrip_every_slice : forall m a b,
  IndelMapSpec.WF m -> 0 <= a -> a <= b -> b <= IndelMap.len m ->
  exists m', IndelMap.getitem_slice m (Some a) (Some b) = IndelMap.Ok m' /\
    IndelMapSpec.abs m' = IndelMapSpec.msub (IndelMapSpec.abs m) a b /\
    forall d, imap_to_dict m' = JObj d -> imap_of_dict d = Ok m'.
Proof. exact imap_roundtrip_slice. Qed.

(** an aligned row (gap map + sequence in any reachable state): same map, same gapped string, same
    sequence observation *)
Theorem aligned_roundtrip : forall a d, aligned_ok a -> aligned_to_dict a = JObj d ->
  exists a', aligned_of_dict d = Ok a' /\ a_map a' = a_map a /\ observe_seq (a_seq a') = observe_seq (a_seq a) /\
    observe_aligned a' = observe_aligned a.
Proof. exact aligned_roundtrip_lemma. Qed.

Theorem aligned_ok_example :
  aligned_ok (mkAl (IndelMap.from_mask [true; false; false; true; true; false])
                   (mkSeq (mkS (mkV (-1) (-4) (-1) 5 2) [65; 67; 71; 84; 65] KDna true) (Some [115]) [])).
Proof. exact example_aligned_ok. Qed.

(** an alignment: moltype, info and every row (in order) *)
Theorem alignment_roundtrip : forall k inf rows d, Forall aligned_ok rows -> alignment_to_dict k inf rows = JObj d ->
  exists rows', alignment_of_dict d = Ok (k, inf, rows') /\ map observe_aligned rows' = map observe_aligned rows.
Proof. exact alignment_roundtrip_lemma. Qed.

(** * (2b) the field-copying types: trees, tables, dict arrays, NotCompleted *)

(** the dict decoder of this model computes exactly C09's [json_roundtrip_fixed] (Model/TreeJson.v: the
    repaired writer that is now in /repo) for EVERY tree, in whatever state - the edge attributes go through
    a python dict keyed by node name (last writer wins), which is what C09's [apply_attrs] does *)
Theorem tree_decoder_is_c09_model : forall t d, tree_to_dict t = JObj d ->
  tree_of_dict d = lift_tree (TreeJson.json_roundtrip_fixed t).
Proof. exact tree_of_dict_eq. Qed.

(** hence, under C09's name guard (root called "root", every other name distinct, parseable, not "edge"/"root"),
    [deserialise_tree(t.to_rich_dict())] is the identical tree: topology, names and every length *)
Theorem tree_roundtrip : forall t d, NewickMoreProofs.rt_ok_json t = true -> tree_to_dict t = JObj d ->
  tree_of_dict d = Ok t.
Proof. exact tree_roundtrip_lemma. Qed.

Theorem tree_guard_example : NewickMoreProofs.rt_ok_json NewickMoreProofs.ex_tree_json = true.
Proof. exact ex_tree_ok. Qed.

(** tables as [Columns] keeps them (empty, sliced, sorted ... any state): index_name, every persistent attribute,
    column order, names and cells read back; the numpy dtype strings read back as [redtype] of what was written *)
Theorem table_roundtrip : forall t d, table_okb t = true -> table_to_dict t = JObj d ->
  exists t', table_of_dict d = Ok t' /\ observe_table t' = observe_table t /\ table_dtypes t' = map redtype (table_dtypes t).
Proof. exact table_roundtrip_lemma. Qed.

(** without a text column the table reads back identical, dtypes included *)
Theorem table_roundtrip_exact : forall t d, table_okb t = true -> dtypes_stable t = true -> table_to_dict t = JObj d ->
  table_of_dict d = Ok t.
Proof. exact table_roundtrip_exact_lemma. Qed.

(** a text column does not keep its dtype: written as "U<bits>", read as "<bits> characters" - the item size grows
    32-fold with every round trip (finding C10-F13; [Columns.__getstate__]) *)
Theorem table_text_dtype_refuted :
  exists t d t', table_okb t = true /\ table_to_dict t = JObj d /\ table_of_dict d = Ok t' /\ t' <> t /\
    table_dtypes t = [[85; 57; 54]] /\ table_dtypes t' = [[85; 51; 48; 55; 50]].
Proof. exact table_text_dtype_refuted_lemma. Qed.

(** falsy is not None: the index name "" (every table made by [DictArray.to_table()]) is kept as an index *)
Theorem table_empty_index_name_kept :
  table_okb ex_table_empty_index = true /\
  forall d, table_to_dict ex_table_empty_index = JObj d ->
    exists t', table_of_dict d = Ok t' /\ t_index t' = Some [] /\ t_index t' <> None /\
      observe_table t' = observe_table ex_table_empty_index.
Proof. exact empty_index_name_kept_lemma. Qed.

Theorem table_guard_example : table_okb ex_table = true.
Proof. exact ex_table_ok. Qed.

Theorem darr_roundtrip : forall a d, darr_okb a = true -> darr_to_dict a = JObj d -> darr_of_dict d = Ok a.
Proof. exact darr_roundtrip_lemma. Qed.

Theorem darr_guard_example : darr_okb ex_darr = true.
Proof. exact ex_darr_ok. Qed.

Theorem notcompleted_roundtrip : forall n d, nc_okb n = true -> nc_to_dict n = JObj d -> nc_of_dict d = Ok n.
Proof. exact nc_roundtrip_lemma. Qed.

Theorem notcompleted_guard_example :
  nc_okb (mkNC [JStr [69]; JStr [109; 101]; JStr [98; 97; 100]] [(k_source, JStr [120])]) = true.
Proof. exact ex_nc_ok. Qed.

(** * (3) the registry *)

(** every class of the package that offers to_rich_dict/to_json and is resolved by the registry is resolved
    to the decoder written for it (56 type strings x 32 registered keys, checked by computation; the
    tables are compared with the live registry by the correspondence stage) *)
Theorem registry_resolves_every_class : forall t f, In (t, f) expected_dispatch -> dispatch registry t = Some f.
Proof. exact registry_resolves_lemma. Qed.

(** [deserialise_object] picks the FIRST registered key that occurs in the type string *)
Theorem dispatch_first_match : forall reg t f, dispatch reg t = Some f ->
  exists pre k post, reg = pre ++ (k, f) :: post /\ is_infix k t = true /\
    Forall (fun kf => is_infix (fst kf) t = false) pre.
Proof. exact dispatch_first_match_lemma. Qed.

(** later registrations (plug-ins, the new-style modules) never change an already resolved type *)
Theorem dispatch_later_registrations_irrelevant : forall reg extra t f,
  dispatch reg t = Some f -> dispatch (reg ++ extra) t = Some f.
Proof. exact dispatch_app_lemma. Qed.

(** the order of registration is load-bearing: swapping two entries of the real registry changes the
    decoder of a [SeqView] dict (substring matching; a hazard, not a violation on the pinned tree) *)
Theorem dispatch_order_sensitive :
  exists reg reg' t, Permutation reg reg' /\ (forall k f, In (k, f) reg -> In (k, f) registry) /\
    dispatch reg t <> dispatch reg' t.
Proof. exact dispatch_order_sensitive_lemma. Qed.

(** HEADLINE (generic): for every modelled object in every well-formed state, the "type" string its
    encoder writes is resolved by the registry to a decoder that inverts the encoder up to observation *)
Theorem roundtrip_via_registry : forall x, obj_ok x ->
  exists y, deserialise_object (to_dict x) = Ok y /\ observe y = observe x.
Proof. exact roundtrip_via_registry_lemma. Qed.

(** * the full property

    [universe] stands for the set of all registered serialisable cogent3 types with their encoders,
    decoders and observation functions.  The theorems above establish this statement for the instance
    [obj]/[to_dict]/[deserialise_object]/[observe]/[obj_ok] of Model/Serial.v (sequences of both
    implementations, views, indel maps, aligned rows, alignments, trees, tables, dict arrays, NotCompleted);
    for the remaining registered types (distance matrices, profiles, alphabets, moltypes, genetic codes,
    substitution models, likelihood functions, app results, annotation dbs, feature maps, new-style
    collections) it is decided by the oracle "observation before = observation after" on the real code. *)
Definition stmt_full_property (T Obs J : Type) (ok : T -> Prop) (encode : T -> J) (decode : J -> option T)
  (obs : T -> Obs) : Prop :=
  forall x, ok x -> exists y, decode (encode x) = Some y /\ obs y = obs x.

Theorem full_property_partial :
  stmt_full_property obj observation json obj_ok to_dict
    (fun j => match deserialise_object j with Ok y => Some y | Err _ => None end) observe.
Proof. exact full_property_partial_lemma. Qed.
