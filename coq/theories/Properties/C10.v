(** C10 - Every serialisable object round-trips, whatever state it is in.
    Only theorem statements; every proof is [exact <lemma>].

    Model/Serial.v transcribes the serialisers whose result depends on the object's HISTORY (the
    re-basing ones): [SeqView.to_rich_dict]/[from_rich_dict], [Sequence.to_rich_dict] and both
    deserialisers ([deserialise_seq] of util/deserialise.py, new-style [Sequence.from_rich_dict]),
    [IndelMap], [Aligned], [Alignment] dicts, over a small JSON datatype, and the type-keyed registry
    ([deserialise_object]: first registered key that is a substring of the "type" value).
    The view kernel is Model/View.v (C01), the gap map Model/IndelMap.v (C08).
    Spec/SerialSpec.v says what is observed of an object: string, length, parent coordinates
    (start, stop, strand of a non-empty sequence), moltype, name, info, gap mask / gapped string.

    For the remaining registered types (tables, dict arrays, distance matrices, alphabets, moltypes,
    trees, substitution models, likelihood functions, app results, NotCompleted, annotation dbs,
    feature maps) the serialiser copies fields without any dependence on the history; they are
    checked against the real code by the correspondence/oracle stage (harness/props/c10.py), not by
    a theorem - see [stmt_full_property] below. *)
From CG3 Require Import Lib.PyZ Lib.Val Lib.PySlice Model.View Spec.ViewSpec.
From CG3 Require Import Model.Serial Spec.SerialSpec Proofs.SerialProofs.
From CG3 Require Model.IndelMap Spec.IndelMapSpec.
From CG3 Require Lib.Rose Model.Tree Model.TreeJson Proofs.NewickMoreProofs.
From CG3 Require Model.FeatureMap Model.AnnotDb Spec.AnnotDbSpec Proofs.AnnotDbProofs.
From Coq Require Import Permutation.

(** * (1) sequences and views *)

(** one well-formed state, OLD style: [deserialise_seq(seq.to_rich_dict())] is observed equal to [seq]
    (string incl. complement of a reversed view, length, parent start/stop/strand, moltype, name, info).
    [seq_ok]: the view is well formed, fits its parent string, and the string is in its moltype's spelling. *)
Theorem seq_roundtrip_old : forall s d, seq_ok s -> seq_to_dict SOld s = JObj d ->
  exists s', seq_of_dict_old d = Ok s' /\ observe_seq s' = observe_seq s.
Proof. exact seq_roundtrip_old_lemma. Qed.

(** NEW style: [Sequence.from_rich_dict(seq.to_rich_dict())] *)
Theorem seq_roundtrip_new : forall s d, seq_ok s -> seq_to_dict SNew s = JObj d ->
  exists s', seq_of_dict_new d = Ok s' /\ observe_seq s' = observe_seq s.
Proof. exact seq_roundtrip_new_lemma. Qed.

(** HEADLINE (histories): for EVERY sequence string, annotation offset and chain of slice / index / rc /
    to_rna / to_dna / copy operations of any depth, under either implementation, the rich dict of the
    resulting object reads back as an object that is observed equal.  (Lifts the C01 view theorems over
    [fold_left]; [clean]/[no_lower]: the initial string is upper-case and in its moltype's spelling, which
    is what [make_seq] produces.) *)
Theorem seq_roundtrip_every_history : forall st k p off ops s0 nm inf d,
  init_seq k p off = Ok s0 -> clean k p -> no_lower p ->
  seq_to_dict st (mkSeq (run_ops (impl_of st) s0 ops) nm inf) = JObj d ->
  exists s', seq_of_dict st d = Ok s' /\
    observe_seq s' = observe_seq (mkSeq (run_ops (impl_of st) s0 ops) nm inf).
Proof. exact seq_roundtrip_reachable_lemma. Qed.

(** the decoded sequence is itself a covered state, so the round trip can be iterated (idempotence up to
    observation): the object read back from a second serialisation is still observed equal to the ORIGINAL *)
Theorem seq_decoded_state_is_covered : forall st s d s', seq_ok s -> seq_to_dict st s = JObj d ->
  seq_of_dict st d = Ok s' -> seq_ok s'.
Proof. exact seq_decoded_ok. Qed.

Theorem seq_roundtrip_twice : forall st s d s1 d1, seq_ok s -> seq_to_dict st s = JObj d -> seq_of_dict st d = Ok s1 ->
  seq_to_dict st s1 = JObj d1 ->
  exists s2, seq_of_dict st d1 = Ok s2 /\ observe_seq s2 = observe_seq s /\ seq_ok s2.
Proof. exact seq_roundtrip_twice_lemma. Qed.

(** the invariant that makes the above work is kept by every operation (whether it succeeds or raises) *)
Theorem history_invariant : forall i ops s, inv s -> inv (run_ops i s ops).
Proof. exact inv_run_ops. Qed.

(** the hypotheses are met by a concrete non-trivial history (slice, rc, strided slice with an offset) *)
Theorem history_example :
  exists s0, init_seq KDna [65; 67; 71; 71; 84; 84; 65; 65; 67; 67] 3 = Ok s0 /\
    clean KDna [65; 67; 71; 71; 84; 84; 65; 65; 67; 67] /\ no_lower [65; 67; 71; 71; 84; 84; 65; 65; 67; 67] /\
    let s := run_ops OldStyle s0 [Slice (Some 1) (Some 9) None; Rc; Slice None None (Some 2)] in
    realise s = [71; 84; 65; 67] /\ parent_coords s = (4, 12, -1).
Proof. exact example_reachable. Qed.

(** a bare (old-style, registered) [SeqView]: displayed string, length, strand and segment length survive ... *)
Theorem seqview_roundtrip : forall v p sid d, WF v -> Fits v p -> view_to_dict SOld v p sid = JObj d ->
  exists v' sg, view_of_dict_old d = Ok (v', sg, sid) /\ offset v' = 0 /\ observe_view v' sg = observe_view v p.
Proof. exact view_roundtrip_lemma. Qed.

(** ... but NOT its position on the parent: the faithful model of [SeqView.to_rich_dict]/[from_rich_dict]
    loses parent_start (finding C10-F2; inside a [Sequence] the position travels as [annotation_offset]) *)
Theorem seqview_position_refuted :
  exists v p sid d v' sg, WF v /\ Fits v p /\ view_to_dict SOld v p sid = JObj d /\
    view_of_dict_old d = Ok (v', sg, sid) /\ parent_start v' <> parent_start v.
Proof. exact seqview_position_refuted_lemma. Qed.

(** * (2) indel maps, aligned rows, alignments *)

Theorem imap_roundtrip : forall m d, IndelMapSpec.WF m -> imap_to_dict m = JObj d -> imap_of_dict d = Ok m.
Proof. exact imap_roundtrip_lemma. Qed.

(** every gap layout: the map of ANY gapped string ... *)
Theorem imap_roundtrip_every_layout : forall (k : list bool) d,
  imap_to_dict (IndelMap.from_mask k) = JObj d -> imap_of_dict d = Ok (IndelMap.from_mask k).
Proof. exact imap_roundtrip_layout. Qed.

(** ... and every slice of it (which denotes the sliced gapped string, C08) *)
Theorem imap_roundtrip_every_slice : forall m a b,
  IndelMapSpec.WF m -> 0 <= a -> a <= b -> b <= IndelMap.len m ->
  exists m', IndelMap.getitem_slice m (Some a) (Some b) = IndelMap.Ok m' /\
    IndelMapSpec.abs m' = IndelMapSpec.msub (IndelMapSpec.abs m) a b /\
    forall d, imap_to_dict m' = JObj d -> imap_of_dict d = Ok m'.
Proof. exact imap_roundtrip_slice. Qed.

(** an aligned row (gap map + sequence in any reachable state): same map, same gapped string, same
    sequence observation *)
Theorem aligned_roundtrip : forall a d, aligned_ok a -> aligned_to_dict a = JObj d ->
  exists a', aligned_of_dict d = Ok a' /\ a_map a' = a_map a /\ observe_seq (a_seq a') = observe_seq (a_seq a) /\
    observe_aligned a' = observe_aligned a.
Proof. exact aligned_roundtrip_lemma. Qed.

Theorem aligned_ok_example :
  aligned_ok (mkAl (IndelMap.from_mask [true; false; false; true; true; false])
                   (mkSeq (mkS (mkV (-1) (-4) (-1) 5 2) [65; 67; 71; 84; 65] KDna true) (Some [115]) [])).
Proof. exact example_aligned_ok. Qed.

(** an alignment: moltype, info and every row (in order) *)
Theorem alignment_roundtrip : forall k inf rows d, Forall aligned_ok rows -> alignment_to_dict k inf rows = JObj d ->
  exists rows', alignment_of_dict d = Ok (k, inf, rows') /\ map observe_aligned rows' = map observe_aligned rows.
Proof. exact alignment_roundtrip_lemma. Qed.

(** * (2b) the field-copying types: trees, tables, dict arrays, NotCompleted *)

(** the dict decoder of this model computes exactly C09's [json_roundtrip_fixed] (Model/TreeJson.v: the
    repaired writer that is now in /repo) for EVERY tree, in whatever state - the edge attributes go through
    a python dict keyed by node name (last writer wins), which is what C09's [apply_attrs] does *)
Theorem tree_decoder_is_c09_model : forall t d, tree_to_dict t = JObj d ->
  tree_of_dict d = lift_tree (TreeJson.json_roundtrip_fixed t).
Proof. exact tree_of_dict_eq. Qed.

(** hence, under C09's name guard (root called "root", every other name distinct, parseable, not "edge"/"root"),
    [deserialise_tree(t.to_rich_dict())] is the identical tree: topology, names and every length *)
Theorem tree_roundtrip : forall t d, NewickMoreProofs.rt_ok_json t = true -> tree_to_dict t = JObj d ->
  tree_of_dict d = Ok t.
Proof. exact tree_roundtrip_lemma. Qed.

Theorem tree_guard_example : NewickMoreProofs.rt_ok_json NewickMoreProofs.ex_tree_json = true.
Proof. exact ex_tree_ok. Qed.

(** tables as [Columns] keeps them (empty, sliced, sorted ... any state): index_name, every persistent attribute,
    column order, names and cells read back; the numpy dtype strings read back as [redtype] of what was written *)
Theorem table_roundtrip : forall t d, table_okb t = true -> table_to_dict t = JObj d ->
  exists t', table_of_dict d = Ok t' /\ observe_table t' = observe_table t /\ table_dtypes t' = map redtype (table_dtypes t).
Proof. exact table_roundtrip_lemma. Qed.

(** without a text column the table reads back identical, dtypes included *)
Theorem table_roundtrip_exact : forall t d, table_okb t = true -> dtypes_stable t = true -> table_to_dict t = JObj d ->
  table_of_dict d = Ok t.
Proof. exact table_roundtrip_exact_lemma. Qed.

(** a text column does not keep its dtype: written as "U<bits>", read as "<bits> characters" - the item size grows
    32-fold with every round trip (finding C10-F13; [Columns.__getstate__]) *)
Theorem table_text_dtype_refuted :
  exists t d t', table_okb t = true /\ table_to_dict t = JObj d /\ table_of_dict d = Ok t' /\ t' <> t /\
    table_dtypes t = [[85; 57; 54]] /\ table_dtypes t' = [[85; 51; 48; 55; 50]].
Proof. exact table_text_dtype_refuted_lemma. Qed.

(** falsy is not None: the index name "" (every table made by [DictArray.to_table()]) is kept as an index *)
Theorem table_empty_index_name_kept :
  table_okb ex_table_empty_index = true /\
  forall d, table_to_dict ex_table_empty_index = JObj d ->
    exists t', table_of_dict d = Ok t' /\ t_index t' = Some [] /\ t_index t' <> None /\
      observe_table t' = observe_table ex_table_empty_index.
Proof. exact empty_index_name_kept_lemma. Qed.

Theorem table_guard_example : table_okb ex_table = true.
Proof. exact ex_table_ok. Qed.

Theorem darr_roundtrip : forall a d, darr_okb a = true -> darr_to_dict a = JObj d -> darr_of_dict d = Ok a.
Proof. exact darr_roundtrip_lemma. Qed.

Theorem darr_guard_example : darr_okb ex_darr = true.
Proof. exact ex_darr_ok. Qed.

Theorem notcompleted_roundtrip : forall n d, nc_okb n = true -> nc_to_dict n = JObj d -> nc_of_dict d = Ok n.
Proof. exact nc_roundtrip_lemma. Qed.

Theorem notcompleted_guard_example :
  nc_okb (mkNC [JStr [69]; JStr [109; 101]; JStr [98; 97; 100]] [(k_source, JStr [120])]) = true.
Proof. exact ex_nc_ok. Qed.

(** * (2c) distance matrices, profile arrays, feature maps, annotation dbs, moltypes *)

(** [DistanceMatrix]: the decoder ([convert2Ddistance]) rebuilds the names as the SORTED set of the names in the
    pair keys and fills the diagonal with 0.0.  Proved for sorted names a < b < c (< d) and ARBITRARY off-diagonal
    cells; the general statement is kept below as [stmt_dmat_roundtrip] (not proved: needs the uniqueness of
    strictly sorted lists over python's string order) *)
Theorem dmat_roundtrip_small_2 : forall v01 v10 inv d,
  dmat_to_dict (mkDm [nA; nB] [[z0; v01]; [v10; z0]] inv) = JObj d ->
  dmat_of_dict d = Ok (mkDm [nA; nB] [[z0; v01]; [v10; z0]] inv).
Proof. exact dmat_roundtrip_2. Qed.

Theorem dmat_roundtrip_small_3 : forall v01 v02 v10 v12 v20 v21 inv d,
  dmat_to_dict (mkDm [nA; nB; nC] [[z0; v01; v02]; [v10; z0; v12]; [v20; v21; z0]] inv) = JObj d ->
  dmat_of_dict d = Ok (mkDm [nA; nB; nC] [[z0; v01; v02]; [v10; z0; v12]; [v20; v21; z0]] inv).
Proof. exact dmat_roundtrip_3. Qed.

Theorem dmat_roundtrip_small_4 : forall v01 v02 v03 v10 v12 v13 v20 v21 v23 v30 v31 v32 inv d,
  dmat_to_dict (mkDm [nA; nB; nC; nD] [[z0; v01; v02; v03]; [v10; z0; v12; v13]; [v20; v21; z0; v23]; [v30; v31; v32; z0]] inv) = JObj d ->
  dmat_of_dict d = Ok (mkDm [nA; nB; nC; nD] [[z0; v01; v02; v03]; [v10; z0; v12; v13]; [v20; v21; z0; v23]; [v30; v31; v32; z0]] inv).
Proof. exact dmat_roundtrip_4. Qed.

(** the reader of the pairs dict takes the STORED (a, b) whenever there is one - the mirror (b, a) is only a fill for
    a missing key - so a full pairs dict (what [to_rich_dict] writes) reads back cell for cell, symmetric or not
    ([dmat_roundtrip_small_*] quantify over independent v_ij and v_ji) *)
Theorem dmat_cell_prefers_stored : forall T a b v, pget T a b = Some v -> dm_cell T a b = v.
Proof. exact dm_cell_stored_lemma. Qed.

Theorem dmat_cell_mirror_only_when_missing : forall T a b, pget T a b = None ->
  dm_cell T a b = match pget T b a with Some v => v | None => JFloat float_zero end.
Proof. exact dm_cell_mirror_lemma. Qed.

Theorem dmat_asymmetric_example :
  let m := mkDm [nA; nB; nC] [[z0; JFloat [49]; JFloat [50]]; [JFloat [55; 46; 53]; z0; JFloat [110; 97; 110]]; [JFloat [57]; JFloat [56]; z0]] JNull in
  exists d, dmat_to_dict m = JObj d /\ dmat_of_dict d = Ok m.
Proof. exact dmat_asymmetric_example_lemma. Qed.

(** the full statement for distance matrices (NOT proved; decided by the correspondence + oracle):
    strictly sorted names, a square array of that size with 0.0 on the diagonal *)
Definition stmt_dmat_roundtrip : Prop :=
  forall m d, dmat_okb m = true -> dmat_to_dict m = JObj d -> dmat_of_dict d = Ok m.

(** names that are not sorted come back sorted (the matrix permuted with them): [.names], [.array] and the row order
    of [to_table()] change, [to_dict()] does not *)
Theorem dmat_name_order_refuted :
  exists m d m', dmat_to_dict m = JObj d /\ dmat_of_dict d = Ok m' /\ dm_names m = [nC; nA; nB] /\ dm_names m' = [nA; nB; nC] /\ m' <> m.
Proof. exact dmat_name_order_refuted_lemma. Qed.

(** a non-zero diagonal is not written and reads back as 0.0 *)
Theorem dmat_diagonal_refuted :
  exists m d m', dmat_to_dict m = JObj d /\ dmat_of_dict d = Ok m' /\ dm_names m' = dm_names m /\ m' <> m.
Proof. exact dmat_diagonal_refuted_lemma. Qed.

(** profile arrays (MotifCountsArray / MotifFreqsArray / PSSM) write the type string of their TEMPLATE, which the
    registry resolves by substring to [deserialise_tabular]: EVERY profile array reads back as the plain DictArray
    with the same names and data - the class is not preserved (open finding C10-K10) *)
Theorem profile_class_refuted : forall c a, darr_okb a = true ->
  exists y, deserialise_object (to_dict (OProfile c a)) = Ok y /\ y = ODarr a /\ observe y <> observe (OProfile c a).
Proof. exact profile_class_refuted_lemma. Qed.

(** feature maps (spans as [Span.__init__] leaves them: start <= end; lost spans) read back identical *)
Theorem fmap_roundtrip : forall m d, forallb span_okb (FeatureMap.fspans m) = true -> fmap_to_dict m = JObj d ->
  fmap_of_dict d = Ok m.
Proof. exact fmap_roundtrip_lemma. Qed.

(** annotation dbs (the record model of C17): the db read back lists the same records table by table and holds the
    same multiset of records (C17 [rich_dict_roundtrip_preserves_multiset] composed with the JSON encoding of a record) *)
Theorem annotation_db_roundtrip : forall db d, AnnotDbProofs.tables_ok [0; 1] db -> db_to_dict [0; 1] db = JObj d ->
  exists db', db_of_dict d = Ok db' /\
    AnnotDbSpec.records_in_tables [0; 1] db' = AnnotDbSpec.records_in_tables [0; 1] db /\ Permutation db' db.
Proof. exact db_roundtrip_lemma. Qed.

(** HEADLINE: an (old-style) sequence in any covered state WITH its annotation db attached: the sequence is observed
    equal and the db holds the same records *)
Theorem seq_with_annotation_db_roundtrip : forall s db d,
  seq_ok s -> AnnotDbProofs.tables_ok [0; 1] db -> db <> [] -> seq_db_to_dict s [0; 1] db = JObj d ->
  exists s' db', seq_db_of_dict d = Ok (s', db') /\ observe_seq s' = observe_seq s /\
    AnnotDbSpec.records_in_tables [0; 1] db' = AnnotDbSpec.records_in_tables [0; 1] db /\ Permutation db' db.
Proof. exact seq_db_roundtrip_lemma. Qed.

Theorem seq_with_annotation_db_example :
  obj_ok (OSeqDb (mkSeq (mkS (mkV (-1) (-4) (-1) 5 2) [65; 67; 71; 84; 65] KDna true) (Some [115]) []) [0; 1] ex_rows).
Proof. exact ex_seq_db_ok. Qed.

(** moltypes are serialised by label and restored by [get_moltype(label)]: a registry of named constants *)
Theorem moltype_roundtrip : forall l d, mem_str l moltype_labels = true -> moltype_to_dict l = JObj d -> moltype_of_dict d = Ok l.
Proof. exact moltype_roundtrip_lemma. Qed.

(** (old-style) alphabets: motifs in order, gap motif, moltype by label *)
Theorem alphabet_roundtrip : forall a d, mem_str (al_label a) moltype_labels = true -> alphabet_to_dict a = JObj d ->
  alphabet_of_dict d = Ok a.
Proof. exact alphabet_roundtrip_lemma. Qed.

(** an alignment (rows in any covered state) WITH its annotation db *)
Theorem alignment_with_annotation_db_roundtrip : forall k inf rows db d,
  Forall aligned_ok rows -> AnnotDbProofs.tables_ok [0; 1] db -> db <> [] ->
  alignment_db_to_dict k inf rows [0; 1] db = JObj d ->
  exists rows' db', alignment_db_of_dict d = Ok ((k, inf, rows'), db') /\ map observe_aligned rows' = map observe_aligned rows /\
    AnnotDbSpec.records_in_tables [0; 1] db' = AnnotDbSpec.records_in_tables [0; 1] db /\ Permutation db' db.
Proof. exact alignment_db_roundtrip_lemma. Qed.

(** * (3) the registry *)

(** every class of the package that offers to_rich_dict/to_json and is resolved by the registry is resolved
    to the decoder written for it (56 type strings x 32 registered keys, checked by computation; the
    tables are compared with the live registry by the correspondence stage) *)
Theorem registry_resolves_every_class : forall t f, In (t, f) expected_dispatch -> dispatch registry t = Some f.
Proof. exact registry_resolves_lemma. Qed.

(** [deserialise_object] picks the FIRST registered key that occurs in the type string *)
Theorem dispatch_first_match : forall reg t f, dispatch reg t = Some f ->
  exists pre k post, reg = pre ++ (k, f) :: post /\ is_infix k t = true /\
    Forall (fun kf => is_infix (fst kf) t = false) pre.
Proof. exact dispatch_first_match_lemma. Qed.

(** later registrations (plug-ins, the new-style modules) never change an already resolved type *)
Theorem dispatch_later_registrations_irrelevant : forall reg extra t f,
  dispatch reg t = Some f -> dispatch (reg ++ extra) t = Some f.
Proof. exact dispatch_app_lemma. Qed.

(** the order of registration is load-bearing: swapping two entries of the real registry changes the
    decoder of a [SeqView] dict (substring matching; a hazard, not a violation on the pinned tree) *)
Theorem dispatch_order_sensitive :
  exists reg reg' t, Permutation reg reg' /\ (forall k f, In (k, f) reg -> In (k, f) registry) /\
    dispatch reg t <> dispatch reg' t.
Proof. exact dispatch_order_sensitive_lemma. Qed.

(** HEADLINE (generic): for every modelled object in every well-formed state, the "type" string its
    encoder writes is resolved by the registry to a decoder that inverts the encoder up to observation *)
Theorem roundtrip_via_registry : forall x, obj_ok x ->
  exists y, deserialise_object (to_dict x) = Ok y /\ observe y = observe x.
Proof. exact roundtrip_via_registry_lemma. Qed.

(** * the full property

    [universe] stands for the set of all registered serialisable cogent3 types with their encoders,
    decoders and observation functions.  The theorems above establish this statement for the instance
    [obj]/[to_dict]/[deserialise_object]/[observe]/[obj_ok] of Model/Serial.v (sequences of both
    implementations, views, indel maps, aligned rows, alignments, trees, tables, dict arrays, NotCompleted,
    feature maps, annotation dbs, sequences and alignments with an annotation db, moltypes, old-style alphabets); [obj_ok] is [False] for distance
    matrices (only [dmat_roundtrip_small_*], see [stmt_dmat_roundtrip]) and for profile arrays (refuted);
    for the remaining registered types (new-style and joint alphabets, genetic codes, substitution models,
    likelihood functions, app results, new-style collections) it is decided by the oracle
    "observation before = observation after" on the real code. *)
Definition stmt_full_property (T Obs J : Type) (ok : T -> Prop) (encode : T -> J) (decode : J -> option T)
  (obs : T -> Obs) : Prop :=
  forall x, ok x -> exists y, decode (encode x) = Some y /\ obs y = obs x.

Theorem full_property_partial :
  stmt_full_property obj observation json obj_ok to_dict
    (fun j => match deserialise_object j with Ok y => Some y | Err _ => None end) observe.
Proof. exact full_property_partial_lemma. Qed.
