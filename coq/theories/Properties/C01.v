(** C01 - Sequence views obey the slice / reverse-complement algebra.
    Only theorem statements; every proof is [exact <lemma>].

    [view], [mk_view], [getitem_slice], [getitem_int], [value], [apply_op],
    [run_ops] ... are the model of Model/View.v (transcribed from
    SliceRecordABC / SeqView / SeqDataView / Sequence); [py_slice],
    [py_getitem] are Python's own slice semantics (Lib/PySlice.v); [WF],
    [Fits], [SWF], [spec_op], [run_spec] are the invariant and the plain-string
    interpretation of Spec/ViewSpec.v. *)
From CG3 Require Import Lib.PyZ Lib.Val Lib.PySlice Model.View Spec.ViewSpec Proofs.ViewProofs Proofs.ViewSeqProofs Proofs.ViewGenEq.
From CG3gen Require ViewGen.

(** * views *)

(** the constructor establishes the invariant for arbitrary (optional,
    negative, out-of-range) arguments ... *)
Theorem wf_mk_view : forall n a b c off v,
  0 <= n -> mk_view n a b c off = Ok v -> WF v.
Proof. exact wf_mk_view_lemma. Qed.

(** ... and realises exactly Python's [p[a:b:c]] *)
Theorem value_mk_view : forall (A : Type) (p : list A) n a b c off v,
  zlen p = n -> c <> Some 0 -> mk_view n a b c off = Ok v ->
  value v p = py_slice p a b (step_of c).
Proof. exact (@value_mk_view_lemma). Qed.

(** the invariant is preserved by slicing and indexing (all three classes) *)
Theorem wf_getitem_slice : forall fl v a b c v',
  WF v -> getitem_slice fl v a b c = Ok v' -> WF v'.
Proof. exact wf_getitem_slice_lemma. Qed.

Theorem wf_getitem_int : forall v i v', WF v -> getitem_int v i = Ok v' -> WF v'.
Proof. exact wf_getitem_int_lemma. Qed.

Theorem fits_preserved : forall (A : Type) fl v (p : list A) a b c v',
  WF v -> Fits v p -> getitem_slice fl v a b c = Ok v' -> Fits v' p.
Proof. exact (@fits_getitem_slice). Qed.

(** [len(view)] is the length of the displayed string *)
Theorem len_value : forall (A : Type) v (p : list A), WF v -> zlen p = seq_len v -> zlen (value v p) = vlen v.
Proof. exact (@len_value_lemma). Qed.

(** HEADLINE: a slice of a view displays the Python slice of what the view
    displays - every optional / negative / out-of-range bound, every non-zero
    step, all four forward/reverse x forward/reverse branches, both zero-slice
    flavours *)
Theorem value_getitem_slice : forall (A : Type) fl v (p : list A) a b c v',
  WF v -> Fits v p -> c <> Some 0 ->
  getitem_slice fl v a b c = Ok v' ->
  value v' p = py_slice (value v p) a b (step_of c).
Proof. exact (@value_getitem_slice_lemma). Qed.

(** slicing with a non-zero step never raises *)
Theorem getitem_slice_total : forall fl v a b c e,
  WF v -> c <> Some 0 -> getitem_slice fl v a b c <> Err e.
Proof. exact getitem_slice_no_err. Qed.

(** integer indexing: IndexError exactly when Python raises it, otherwise the
    one-element view of the same element *)
Theorem value_getitem_int : forall (A : Type) v (p : list A) i,
  WF v -> zlen p = seq_len v ->
  match getitem_int v i with
  | Ok v' => exists y, py_getitem (value v p) i = Some y /\ value v' p = [y]
  | Err _ => py_getitem (value v p) i = None
  end.
Proof. exact (@value_getitem_int_lemma). Qed.

(** * parent coordinates *)

(** the reported plus-strand segment [parent_start - offset, parent_stop - offset)
    lies inside the parent ... *)
Theorem parent_segment_bounds : forall v,
  WF v -> 0 <= seg_lo v <= seg_hi v /\ seg_hi v <= seq_len v.
Proof. exact seg_bounds. Qed.

(** ... the view displays exactly that segment read with its stride and
    orientation (strand = sign of step) ... *)
Theorem parent_segment : forall (A : Type) v (p : list A),
  WF v -> zlen p = seq_len v ->
  value v p = strided (seg p (seg_lo v) (seg_hi v)) (step v).
Proof. exact (@parent_segment_lemma). Qed.

(** ... which for a contiguous view is exactly as long as the view, and for a
    strided one overshoots the last displayed residue by less than one stride *)
Theorem parent_segment_contiguous : forall v,
  WF v -> Z.abs (step v) = 1 -> seg_hi v - seg_lo v = vlen v.
Proof. exact parent_segment_exact. Qed.

Theorem parent_segment_strided : forall v, WF v -> 0 < vlen v ->
  Z.abs (step v) * (vlen v - 1) < seg_hi v - seg_lo v <= Z.abs (step v) * vlen v.
Proof. exact parent_segment_tight. Qed.

(** [SeqDataView.str_value] (reads [parent_start:parent_stop], then strides) = [SeqView.value] *)
Theorem sdv_value_eq_value : forall (A : Type) v (p : list A),
  WF v -> zlen p = seq_len v -> offset v = 0 -> sdv_value v p = value v p.
Proof. exact (@sdv_value_lemma). Qed.

(** the byte and index-array realisations of a SeqDataView (the same two
    slices executed on an element-wise image [map f p] of the parent string)
    are the element-wise images of what the kernel view displays *)
Theorem sdv_routes_agree : forall (A B : Type) (f : A -> B) v (p : list A),
  WF v -> zlen p = seq_len v -> offset v = 0 ->
  sdv_value v (map f p) = map f (value v p).
Proof. exact (@sdv_routes_agree_lemma). Qed.

Theorem value_natural : forall (A B : Type) (f : A -> B) v (p : list A),
  value v (map f p) = map f (value v p).
Proof. exact (@value_map). Qed.

(** rich-dict re-basing ([copy(sliced=True)] / [to_rich_dict]): the view over
    the truncated parent displays the same string and keeps length and
    orientation; its own segment starts at 0 *)
Theorem copy_sliced_preserves : forall (A : Type) keep v (p : list A),
  WF v -> zlen p = seq_len v ->
  let '(r, seg') := copy_sliced keep v p in
  exists v', r = Ok v' /\ WF v' /\ zlen seg' = seq_len v' /\
    value v' seg' = value v p /\ vlen v' = vlen v /\
    offset v' = (if keep then offset v else 0) /\
    (0 < vlen v ->
     seg_lo v' = 0 /\ seg_hi v' = seg_hi v - seg_lo v /\ (step v' <? 0) = (step v <? 0)).
Proof. exact (@copy_sliced_lemma). Qed.

(** [relative_position] inverts [absolute_position] on every displayed index
    (the pair used by feature-coordinate translation, C04) *)
Theorem abs_rel_inverse : forall v i, WF v -> 0 <= offset v -> 0 <= i < vlen v ->
  exists a, absolute_position v i false = Ok a /\ relative_position v a false = Ok i.
Proof. exact abs_rel_inverse_lemma. Qed.

(** * translator tie: the same theorems about the kernel REGENERATED from the source

    [ViewGen.Old], [ViewGen.New], [ViewGen.Sdv] are written on every run by
    harness/translators/py2gallina.py from the current text of sequence.py
    (SliceRecordABC + SeqView), new_sequence.py (SliceRecordABC + SeqView) and
    new_alignment.py (SeqDataView); Proofs/ViewGenEq.v proves each generated
    function equal to the model function for all arguments.  These theorems
    therefore hold of what the source says now; they stop compiling when an
    edit changes the meaning of a kernel function. *)

(** ** sequence.py *)

(** every generated function is the model function (all arguments) *)
Theorem gen_old_kernel_eq_model :
  (forall v a b c, ViewGen.Old.getitem_slice v a b c = getitem_slice FSeqView v a b c) /\
  (forall v i, ViewGen.Old.getitem_int v i = getitem_int v i) /\
  (forall v i ib, ViewGen.Old.get_index v i ib = get_index v i ib) /\
  (forall v i ib, ViewGen.Old.absolute_position v i ib = absolute_position v i ib) /\
  (forall v i sf, ViewGen.Old.relative_position v i sf = relative_position v i sf) /\
  (forall v, ViewGen.Old.len v = vlen v) /\
  (forall n a b c off, ViewGen.Old.init n a b c off None = mk_view n a b c off) /\
  (forall v, ViewGen.Old.parent_start v = if is_reversed v && negb (stop v <? 0) then Err E_Other else Ok (parent_start v)) /\
  (forall v, ViewGen.Old.parent_stop v = if is_reversed v && negb (start v <? 0) then Err E_Other else Ok (parent_stop v)).
Proof. exact OldEq.kernel_eq_model. Qed.

Theorem gen_old_init_seq_len : forall n a b c off sl v, ViewGen.Old.init n a b c off sl = Ok v -> seq_len v = n.
Proof. exact OldEq.init_seq_len. Qed.

Theorem gen_old_value_init : forall (A : Type) (p : list A) n a b c off v,
  zlen p = n -> c <> Some 0 -> ViewGen.Old.init n a b c off None = Ok v ->
  WF v /\ value v p = py_slice p a b (step_of c).
Proof. exact (@OldEq.wf_value_init). Qed.

(** HEADLINE on the generated kernel (with the invariant, so that it chains) *)
Theorem gen_old_value_getitem_slice : forall (A : Type) v (p : list A) a b c v',
  WF v -> Fits v p -> c <> Some 0 ->
  ViewGen.Old.getitem_slice v a b c = Ok v' ->
  WF v' /\ Fits v' p /\ value v' p = py_slice (value v p) a b (step_of c).
Proof. exact (@OldEq.value_getitem_slice). Qed.

Theorem gen_old_value_getitem_int : forall (A : Type) v (p : list A) i,
  WF v -> zlen p = seq_len v ->
  match ViewGen.Old.getitem_int v i with
  | Ok v' => WF v' /\ exists y, py_getitem (value v p) i = Some y /\ value v' p = [y]
  | Err _ => py_getitem (value v p) i = None
  end.
Proof. exact (@OldEq.value_getitem_int). Qed.

(** the asserts in parent_start / parent_stop never fire, and the reported
    plus-strand segment is what the view displays *)
Theorem gen_old_parent_segment : forall (A : Type) v (p : list A),
  WF v -> zlen p = seq_len v ->
  exists ps pe, ViewGen.Old.parent_start v = Ok ps /\ ViewGen.Old.parent_stop v = Ok pe /\
    0 <= ps - offset v <= pe - offset v /\ pe - offset v <= seq_len v /\
    value v p = strided (seg p (ps - offset v) (pe - offset v)) (step v).
Proof. exact (@OldEq.parent_segment). Qed.

Theorem gen_old_abs_rel_inverse : forall v i, WF v -> 0 <= offset v -> 0 <= i < ViewGen.Old.len v ->
  exists a, ViewGen.Old.absolute_position v i false = Ok a /\ ViewGen.Old.relative_position v a false = Ok i.
Proof. exact OldEq.abs_rel_inverse. Qed.

(** ** new_sequence.py *)

(** every generated function is the model function (all arguments) *)
Theorem gen_new_kernel_eq_model :
  (forall v a b c, ViewGen.New.getitem_slice v a b c = getitem_slice FSeqView v a b c) /\
  (forall v i, ViewGen.New.getitem_int v i = getitem_int v i) /\
  (forall v i ib, ViewGen.New.get_index v i ib = get_index v i ib) /\
  (forall v i ib, ViewGen.New.absolute_position v i ib = absolute_position v i ib) /\
  (forall v i sf, ViewGen.New.relative_position v i sf = relative_position v i sf) /\
  (forall v, ViewGen.New.len v = vlen v) /\
  (forall n a b c off, ViewGen.New.init n a b c off None = mk_view n a b c off) /\
  (forall v, ViewGen.New.parent_start v = if is_reversed v && negb (stop v <? 0) then Err E_Other else Ok (parent_start v)) /\
  (forall v, ViewGen.New.parent_stop v = if is_reversed v && negb (start v <? 0) then Err E_Other else Ok (parent_stop v)).
Proof. exact NewEq.kernel_eq_model. Qed.

Theorem gen_new_init_seq_len : forall n a b c off sl v, ViewGen.New.init n a b c off sl = Ok v -> seq_len v = n.
Proof. exact NewEq.init_seq_len. Qed.

Theorem gen_new_value_init : forall (A : Type) (p : list A) n a b c off v,
  zlen p = n -> c <> Some 0 -> ViewGen.New.init n a b c off None = Ok v ->
  WF v /\ value v p = py_slice p a b (step_of c).
Proof. exact (@NewEq.wf_value_init). Qed.

(** HEADLINE on the generated kernel (with the invariant, so that it chains) *)
Theorem gen_new_value_getitem_slice : forall (A : Type) v (p : list A) a b c v',
  WF v -> Fits v p -> c <> Some 0 ->
  ViewGen.New.getitem_slice v a b c = Ok v' ->
  WF v' /\ Fits v' p /\ value v' p = py_slice (value v p) a b (step_of c).
Proof. exact (@NewEq.value_getitem_slice). Qed.

Theorem gen_new_value_getitem_int : forall (A : Type) v (p : list A) i,
  WF v -> zlen p = seq_len v ->
  match ViewGen.New.getitem_int v i with
  | Ok v' => WF v' /\ exists y, py_getitem (value v p) i = Some y /\ value v' p = [y]
  | Err _ => py_getitem (value v p) i = None
  end.
Proof. exact (@NewEq.value_getitem_int). Qed.

(** the asserts in parent_start / parent_stop never fire, and the reported
    plus-strand segment is what the view displays *)
Theorem gen_new_parent_segment : forall (A : Type) v (p : list A),
  WF v -> zlen p = seq_len v ->
  exists ps pe, ViewGen.New.parent_start v = Ok ps /\ ViewGen.New.parent_stop v = Ok pe /\
    0 <= ps - offset v <= pe - offset v /\ pe - offset v <= seq_len v /\
    value v p = strided (seg p (ps - offset v) (pe - offset v)) (step v).
Proof. exact (@NewEq.parent_segment). Qed.

Theorem gen_new_abs_rel_inverse : forall v i, WF v -> 0 <= offset v -> 0 <= i < ViewGen.New.len v ->
  exists a, ViewGen.New.absolute_position v i false = Ok a /\ ViewGen.New.relative_position v a false = Ok i.
Proof. exact NewEq.abs_rel_inverse. Qed.

(** ** new_alignment.py SeqDataView *)

(** every generated function is the model function (all arguments) *)
Theorem gen_sdv_kernel_eq_model :
  (forall v a b c, ViewGen.Sdv.getitem_slice v a b c = getitem_slice FSeqDataView v a b c) /\
  (forall v i, ViewGen.Sdv.getitem_int v i = getitem_int v i) /\
  (forall v i ib, ViewGen.Sdv.get_index v i ib = get_index v i ib) /\
  (forall v i ib, ViewGen.Sdv.absolute_position v i ib = absolute_position v i ib) /\
  (forall v i sf, ViewGen.Sdv.relative_position v i sf = relative_position v i sf) /\
  (forall v, ViewGen.Sdv.len v = vlen v) /\
  (forall n a b c off, ViewGen.Sdv.init n a b c off = mk_view n a b c off) /\
  (forall v, ViewGen.Sdv.parent_start v = if is_reversed v && negb (stop v <? 0) then Err E_Other else Ok (parent_start v)) /\
  (forall v, ViewGen.Sdv.parent_stop v = if is_reversed v && negb (start v <? 0) then Err E_Other else Ok (parent_stop v)).
Proof. exact SdvEq.kernel_eq_model. Qed.

Theorem gen_sdv_value_init : forall (A : Type) (p : list A) n a b c off v,
  zlen p = n -> c <> Some 0 -> ViewGen.Sdv.init n a b c off = Ok v ->
  WF v /\ value v p = py_slice p a b (step_of c).
Proof. exact (@SdvEq.wf_value_init). Qed.

(** HEADLINE on the generated kernel (with the invariant, so that it chains) *)
Theorem gen_sdv_value_getitem_slice : forall (A : Type) v (p : list A) a b c v',
  WF v -> Fits v p -> c <> Some 0 ->
  ViewGen.Sdv.getitem_slice v a b c = Ok v' ->
  WF v' /\ Fits v' p /\ value v' p = py_slice (value v p) a b (step_of c).
Proof. exact (@SdvEq.value_getitem_slice). Qed.

Theorem gen_sdv_value_getitem_int : forall (A : Type) v (p : list A) i,
  WF v -> zlen p = seq_len v ->
  match ViewGen.Sdv.getitem_int v i with
  | Ok v' => WF v' /\ exists y, py_getitem (value v p) i = Some y /\ value v' p = [y]
  | Err _ => py_getitem (value v p) i = None
  end.
Proof. exact (@SdvEq.value_getitem_int). Qed.

(** the asserts in parent_start / parent_stop never fire, and the reported
    plus-strand segment is what the view displays *)
Theorem gen_sdv_parent_segment : forall (A : Type) v (p : list A),
  WF v -> zlen p = seq_len v ->
  exists ps pe, ViewGen.Sdv.parent_start v = Ok ps /\ ViewGen.Sdv.parent_stop v = Ok pe /\
    0 <= ps - offset v <= pe - offset v /\ pe - offset v <= seq_len v /\
    value v p = strided (seg p (ps - offset v) (pe - offset v)) (step v).
Proof. exact (@SdvEq.parent_segment). Qed.

Theorem gen_sdv_abs_rel_inverse : forall v i, WF v -> 0 <= offset v -> 0 <= i < ViewGen.Sdv.len v ->
  exists a, ViewGen.Sdv.absolute_position v i false = Ok a /\ ViewGen.Sdv.relative_position v a false = Ok i.
Proof. exact SdvEq.abs_rel_inverse. Qed.

(** * sequences *)

Theorem complement_involutive : forall k x, comp k (comp k x) = x.
Proof. exact comp_involutive. Qed.

(** one operation: succeeds exactly when the plain-string operation does and
    then reads as its result; the invariant is kept *)
Theorem apply_op_correct : forall i s o, SWF s -> op_ok_for i o ->
  match apply_op i s o with
  | Ok s' => SWF s' /\ spec_op (plain_of s) o = Some (plain_of s')
  | Err _ => spec_op (plain_of s) o = None
  end.
Proof. exact apply_op_spec. Qed.

(** HEADLINE (chains): for every sequence, annotation offset and chain of
    slice / index / rc / to_rna / to_dna / copy operations of any depth, the
    result reads (string and moltype) as the same chain applied to the plain
    string.  [op_ok_for Fixed] excludes only a slice step of 0; the pinned
    old-style implementation is covered except [to_rna]/[to_dna], the pinned
    new-style one except [copy] (see the two [_refuted] theorems). *)
Theorem chain_spec : forall i k p off ops s0,
  init_seq k p off = Ok s0 -> Forall (op_ok_for i) ops ->
  plain_of (run_ops i s0 ops) = run_spec ops (p, k).
Proof. exact chain_spec_lemma. Qed.

(** [copy(sliced=True)] of a sequence keeps string and parent coordinates *)
Theorem copy_sliced_coords : forall i s s', i <> NewStyle ->
  SWF s -> zlen (parent s) = seq_len (sv s) -> 0 < vlen (sv s) ->
  apply_op i s CopySliced = Ok s' -> parent_coords s' = parent_coords s /\ realise s' = realise s.
Proof. exact copy_sliced_coords_lemma. Qed.

(** pinned old-style [to_moltype] converts the raw view string: the chain
    [rc; to_rna] does not read as the plain-string chain (finding C01-F1) *)
Theorem to_rna_old_refuted :
  exists k p ops s0, init_seq k p 0 = Ok s0 /\ Forall op_ok ops /\
    plain_of (run_ops OldStyle s0 ops) <> run_spec ops (p, k).
Proof. exact to_rna_old_refuted_lemma. Qed.

(** pinned new-style [copy()] of a sequence with an annotation offset raises
    ValueError although the plain-string operation is the identity (finding C01-F4) *)
Theorem copy_new_refuted :
  exists k p off s0, init_seq k p off = Ok s0 /\
    apply_op NewStyle s0 CopySliced = Err E_Value /\
    spec_op (plain_of s0) CopySliced = Some (plain_of s0).
Proof. exact copy_new_refuted_lemma. Qed.
