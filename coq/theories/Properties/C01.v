(** C01 - Sequence views obey the slice / reverse-complement algebra.
    Only theorem statements; every proof is [exact <lemma>]. *)
From CG3 Require Import Lib.PyZ Lib.PySlice Model.View Spec.ViewSpec Proofs.ViewProofs.

(** the constructor establishes the invariant for arbitrary (optional,
    negative, out-of-range) arguments *)
Theorem wf_mk_view : forall n a b c off v,
  0 <= n -> mk_view n a b c off = Ok v -> WF v.
Proof. exact wf_mk_view_lemma. Qed.
