(** C16 — Nested-model initialisation and optimisation never lose likelihood.
    Only theorem statements; every proof is [exact <lemma>].

    Part 1: the optimiser wrapper (cogent3.maths.optimisers maximise/minimise,
    limited_use, bounded_function, bounds_exception_catching_function) driven by
    an ADVERSARIAL optimiser: [g] and [l] are the arbitrary action lists of the
    global and the local optimiser (queries anywhere, crashes, early stop),
    [f] an arbitrary objective (finite values, +-inf, NaN, exceptions),
    [maxev] any max_evaluations, [b] any bounds, [local] any of None/True/False.
    [Ran o bf bx n seen] = the try/finally block of maximise ran and get_best()
    produced value [bf] at vector [bx] after [n] evaluations; [o] says whether
    maximise then returns [bx] ([Done]) or re-raises ([Limit], [Crashed]). *)
From CG3 Require Import Lib.PyZ Model.Optim Spec.OptimSpec Proofs.OptimProofs.

(** optimisation never returns a lower value than it started from *)
Theorem never_worse : forall f maxev b local x0 g l o bf bx n seen s,
  maximise f maxev b local x0 g l = (Ran o bf bx n seen, s) ->
  exists v0, f x0 = Fin v0 /\ f bx = bf /\ at_least bf v0.
Proof. exact never_worse_lemma. Qed.

(** the returned vector is within the declared bounds *)
Theorem within_bounds : forall f maxev b local x0 g l o bf bx n seen s,
  maximise f maxev b local x0 g l = (Ran o bf bx n seen, s) -> in_bounds b bx = true.
Proof. exact within_bounds_lemma. Qed.

(** the function (calculator) is left at the returned best vector, not at the
    last point the optimiser looked at — also when the run ends by the
    evaluation limit or by an exception *)
Theorem calculator_left_at_best : forall f maxev b local x0 g l o bf bx n seen s,
  maximise f maxev b local x0 g l = (Ran o bf bx n seen, s) -> lf_state_after s = Some bx.
Proof. exact left_at_best_lemma. Qed.

(** the returned vector maximises f over ALL evaluated points (start included),
    and every evaluated point is within bounds *)
Theorem best_is_max : forall f maxev b local x0 g l o bf bx n seen s,
  maximise f maxev b local x0 g l = (Ran o bf bx n seen, s) ->
  is_argmax f (calls s) bx /\ In x0 (calls s) /\ (forall q, In q (calls s) -> in_bounds b q = true).
Proof. exact best_is_max_lemma. Qed.

(** evaluation accounting under any limit *)
Theorem evaluation_limit_respected : forall f maxev b local x0 g l o bf bx n seen s,
  maximise f maxev b local x0 g l = (Ran o bf bx n seen, s) ->
  zlen (calls s) = n + 1 /\ 1 <= n /\
  (forall m, maxev = Some m -> n <= m) /\
  (forall k, o = Limit k -> k = n /\ maxev = Some n).
Proof. exact evals_lemma. Qed.

(** get_best() always has a best point to re-evaluate *)
Theorem get_best_total : forall f maxev b local x0 g l s,
  maximise f maxev b local x0 g l <> (Broken, s).
Proof. exact never_broken_lemma. Qed.

(** non-vacuity: from every valid start, for every adversary, the block runs *)
Theorem runs_from_every_valid_start : forall f maxev b local x0 g l v0,
  f x0 = Fin v0 -> in_bounds b x0 = true -> (forall m, maxev = Some m -> 1 <= m) ->
  exists o bf bx n seen s, maximise f maxev b local x0 g l = (Ran o bf bx n seen, s).
Proof. exact runs_if_valid_start_lemma. Qed.

(** minimise: never returns a higher value, within bounds, left at the result *)
Theorem never_worse_minimise : forall f maxev b local x0 g l o bf bx n seen s,
  minimise f maxev b local x0 g l = (Ran o bf bx n seen, s) ->
  exists v0, f x0 = Fin v0 /\ at_most (f bx) v0 /\ in_bounds b bx = true /\ lf_state_after s = Some bx.
Proof. exact never_worse_min_lemma. Qed.

(** likelihood ratio of an alternate started where its lnL equals the null's *)
Theorem LR_nonneg : forall f maxev b local x0 g l o bx n seen s lnl_null lnl_alt,
  f x0 = Fin lnl_null ->
  maximise f maxev b local x0 g l = (Ran o (Fin lnl_alt) bx n seen, s) ->
  0 <= LR lnl_alt lnl_null.
Proof. exact LR_nonneg_lemma. Qed.

(** Part 2: initialising the richer model from the nested one
    (cogent3.evolve.likelihood_function _get_param_mapping, _ParamProjection,
    update_scoped_rules).  [ex] / [keep] select which of the two transcribed
    variants of the source is meant: [false] = the pinned code, [true] = the
    code with the proposed fixes C16-2 / C16-1 (the harness sets the flag from
    the behaviour of the implementation it runs against). *)
From Coq Require Import Permutation.
From CG3 Require Import Lib.Semiring Model.Nested Spec.NestedSpec Proofs.NestedProofs.

(** under the nesting condition, the rich model initialised from the nested
    one has, on EVERY cell of the rate matrix, the rate the nested model has —
    for every assignment of parameter values in any commutative monoid *)
Theorem projection_exact : forall (A : Type) (m : cm_ops A), cm_laws m ->
  forall ex rich simple, NoDup (map fst rich) -> nested_ok ex rich simple = true ->
  forall (theta : name -> A) c, rate m rich (theta' m ex rich simple theta) c = rate m simple theta c.
Proof. exact projection_exact_lemma. Qed.

(** the nesting condition excludes the "tied for matrix space" ValueError *)
Theorem nested_ok_mapping_defined : forall ex rich simple,
  nested_ok ex rich simple = true -> zlen simple <= zlen rich ->
  exists mp, param_mapping ex rich simple = MOk mp.
Proof. exact nested_ok_no_tie. Qed.

(** non-vacuity: HKY85 within GTR satisfies the hypotheses (both variants) *)
Theorem hky85_in_gtr_satisfies_nested_ok :
  nested_ok false gtr_coords hky_coords = true /\ nested_ok true gtr_coords hky_coords = true /\
  NoDup (map fst gtr_coords).
Proof. exact hky_in_gtr_nested_ok. Qed.

(** a scoped rule of the alternate keeps its scope and takes the value of the
    nested rule with the same key, or of the UNIQUE nested rule of the same
    parameter that is global or shares an edge with it (or, fixed variant
    only, keeps its own value when there is none) *)
Theorem scoped_rule_inherits : forall keep nulld null_rem r es out,
  r_edges r = Some es -> scoped_one keep nulld null_rem r = MOk out ->
  exists v, out = [mkrule (r_par r) (Some es) v] /\
    ((exists n, In n nulld /\ key_eqb r n = true /\ v = r_val n)
     \/ (exists n, In n null_rem /\ overlaps r n es /\ v = r_val n /\ scope_matches r null_rem = [n])
     \/ (keep = true /\ scope_matches r null_rem = [] /\ v = r_val r)).
Proof. exact scoped_rule_inherits_lemma. Qed.

Theorem scoped_fixed_never_index_error : forall nulld null_rem r, scoped_one true nulld null_rem r <> MErr 1.
Proof. exact scoped_one_fixed_no_index_error. Qed.

(** REFUTED for the pinned code (finding C16-1): initialisation is not total on
    nested scopes — a scoped parameter of the alternate without counterpart in
    the nested model raises IndexError; the fixed variant keeps the rule *)
Theorem scoped_rules_total_refuted :
  update_scoped_rules false [mkrule [1] (Some [[10]]) 1] [mkrule [2] (Some [[10]]) 2] = MErr 1 /\
  update_scoped_rules true [mkrule [1] (Some [[10]]) 1] [mkrule [2] (Some [[10]]) 2] = MOk [mkrule [1] (Some [[10]]) 1].
Proof. exact scoped_pinned_index_error_witness. Qed.

(** REFUTED for the pinned code (finding C16-2): with rich = simple + an extra
    predicate inside two unchanged ones (the H04G -> H04GGK shape) the
    smallest-superset rule does not reproduce the nested rates; the fixed rule does *)
Theorem projection_pinned_rule_refuted :
  rate zmul sh_rich (theta' zmul false sh_rich sh_simple sh_theta) (0, 1) <> rate zmul sh_simple sh_theta (0, 1) /\
  rate zmul sh_rich (theta' zmul true sh_rich sh_simple sh_theta) (0, 1) = rate zmul sh_simple sh_theta (0, 1).
Proof. exact pinned_rule_not_exact_witness. Qed.

(** update_param_rules (same = True) with the mapping of _get_param_mapping
    assigns to every rich parameter (not "ref_cell", with at least one cell) the
    value of the rule of its chosen simple parameter, and nothing else *)
Theorem projected_rules_assign : forall ex rich simple pm rules n rc,
  param_mapping ex rich simple = MOk pm ->
  NoDup (map fst rich) ->
  (forall r, In r rules -> In (r_par r) (map fst simple) /\
                           name_eqb (r_par r) n_mprobs || name_eqb (r_par r) n_length = false) ->
  In (n, rc) rich -> name_eqb n ref_cell = false -> rc <> [] ->
  lookup_rule n (update_param_rules_same rich pm rules)
  = match pick_simple ex rich simple rc with PChosen s => lookup_rule s rules | _ => None end.
Proof. exact projected_rules_assign_lemma. Qed.

(** end to end on the transcribed functions (integer parameter values, fresh
    alternate = all rate parameters 1): under the nesting condition the rules
    produced for the alternate give, on every cell, the nested model's rate *)
Theorem initialised_rates_exact : forall ex rich simple pm rules,
  param_mapping ex rich simple = MOk pm ->
  nested_ok ex rich simple = true ->
  NoDup (map fst rich) ->
  (forall r, In r rules -> In (r_par r) (map fst simple) /\
                           name_eqb (r_par r) n_mprobs || name_eqb (r_par r) n_length = false) ->
  lookup_rule ref_cell rules = None ->
  forall c, rate zmul rich (theta_from (update_param_rules_same rich pm rules)) c
            = rate zmul simple (theta_from rules) c.
Proof. exact init_rates_exact_lemma. Qed.

(** scoping: a scoped rule [r] of the alternate (edges [es], [e] one of them).
    If no other rule of the alternate for that parameter covers [e] (they are
    scoped and non-empty), every nested rule of the parameter sharing an edge
    with [es] covers [e] (nesting), and the nested rules covering [e] agree on
    the value [v], then after update_scoped_rules the alternate has [v] on
    (parameter, e) — whenever update_scoped_rules returns *)
Theorem scope_exact : forall keep rich null new r es e v,
  update_scoped_rules keep rich null = MOk new ->
  dedup_last rich = rich -> dedup_last null = null ->
  In r rich -> r_edges r = Some es -> mem_name e es = true ->
  (forall r', In r' rich -> r' <> r -> r_par r' = r_par r ->
              exists es', r_edges r' = Some es' /\ es' <> [] /\ mem_name e es' = false) ->
  (forall n ns, In n null -> r_par n = r_par r -> r_edges n = Some ns -> names_meet ns es = true ->
                mem_name e ns = true) ->
  (forall n, In n null -> r_par n = r_par r -> covers_edge n e = true -> r_val n = v) ->
  value_at null (r_par r) e = Some v ->
  value_at new (r_par r) e = Some v.
Proof. exact scope_exact_lemma. Qed.

(** non-vacuity of scope_exact: kappa on {a,b} and on {c} in the alternate,
    kappa = 5 on {a,b,c} in the nested model *)
Theorem scope_exact_nonvacuous :
  let rich := [mkrule [1] (Some [[10];[11]]) 1; mkrule [1] (Some [[12]]) 1] in
  let null := [mkrule [1] (Some [[10];[11];[12]]) 5] in
  exists new, update_scoped_rules false rich null = MOk new /\ value_at new [1] [10] = Some 5.
Proof. exact scope_exact_instance. Qed.

(** Part 3: stationary nested model -> NON-stationary rich model (same = False:
    HKY85 / TN93 / GTR / F81 -> GN; _ParamProjection._set_ref_val, _rate_not_same).
    Exact rationals.  [Q_stationary pi simple theta c] = pi_j * (product of the
    nested model's rate parameters covering c); [Q_nonstationary rich theta' c] =
    product of the rich model's parameters covering c (1 on its reference cell);
    [theta_ns] = the values the projection assigns (pi_j * value / rho).  Under the
    nesting condition the rich rate matrix is the nested one divided by the
    single constant rho on EVERY cell — so after calibration of Q it is the same
    matrix. *)
From CG3 Require Import Model.NestedNS Spec.NestedNSSpec Proofs.NestedNSProofs.

Theorem projection_exact_not_same : forall ex pi rho rich simple,
  NoDup (map fst rich) ->
  nested_ok_ns ex rich simple = true ->
  rho <> 0%Qc ->
  (forall c, In c (coords_of ref_cell rich) -> pi (snd c) = rho) ->
  forall (theta : name -> Qc) c, In c (universe rich simple) ->
    (Q_nonstationary rich (theta_ns ex pi rho rich simple theta) c * rho
     = Q_stationary pi simple theta c)%Qc.
Proof. exact projection_exact_not_same_lemma. Qed.

(** the code's reference value is the motif probability of the target state of a
    reference cell of the rich model *)
Theorem ref_val_reads_reference_target : forall pi rich rho,
  ref_val pi rich = MOk rho -> exists c, In c (coords_of ref_cell rich) /\ rho = pi (snd c).
Proof. exact ref_val_is_ref_col. Qed.

(** non-vacuity: HKY85 and GTR within GN *)
Theorem hky85_gtr_in_gn_satisfy_nested_ok_ns :
  nested_ok_ns false gn_coords hky_coords = true /\ nested_ok_ns true gn_coords hky_coords = true /\
  nested_ok_ns false gn_coords gtr_coords = true /\ NoDup (map fst gn_coords).
Proof. exact hky_in_gn_nested_ok_ns. Qed.

(** Part 4: the app-level sequence of hypothesis / model_collection for one
    alternate (null fit -> alternate configured -> initialise_from_nested inside
    _InitFrom, exceptions swallowed -> lf.optimise with limit_action), see
    Model/AppSeq.v.  [configure ord sequential nfp_null a project]:
    [ord = true] is the pinned order (time_het applied BEFORE initialise). *)
From CG3 Require Import Model.AppSeq Model.NestedBins Proofs.AppSeqProofs.

(** pinned order: a time-heterogeneous alternate is initialised as such *)
Theorem pinned_order_initialises : forall nfp_null a project n x,
  nfp_het a = Some n -> nfp_null < n -> project true = MOk x ->
  configure true true nfp_null a project = (x, Initialised, n).
Proof. exact pinned_order_initialises_lemma. Qed.

(** the other order, alternate = null model + time_het: AssertionError, swallowed, defaults *)
Theorem wrong_order_swallowed : forall nfp_null a project n,
  nfp_het a = Some n -> nfp_homog a <= nfp_null ->
  configure false true nfp_null a project = (x_default a, Swallowed 9, nfp_homog a).
Proof. exact wrong_order_swallowed_lemma. Qed.

(** lf.optimise under every limit_action: return / warning / ArithmeticError /
    foreign exception — the function is always left at a within-bounds vector not
    worse than the start *)
Theorem lf_optimise_never_worse : forall f maxev b local limit_action x0 g l res st o bf bx n seen,
  fit f maxev b local limit_action x0 g l = (res, st, Ran o bf bx n seen) ->
  st = Some bx /\ in_bounds b bx = true /\
  (exists v0, f x0 = Fin v0 /\ f bx = bf /\ at_least bf v0) /\
  (o = Done -> res = LfReturns) /\
  (forall k, o = Limit k ->
     res = (if limit_action =? 0 then LfReturns else if limit_action =? 1 then LfWarns else LfRaisesArith)) /\
  (o = Crashed -> res = LfRaisesOther).
Proof. exact fit_never_worse_lemma. Qed.

(** end to end: initialise succeeded and reproduced lnL(null)  ==>  LR >= 0,
    for every optimiser script, evaluation limit, bounds, limit_action *)
Theorem hypothesis_LR_nonneg : forall ord nfp_null a project f_alt maxev b local limit_action g l
    lnl_null x0 nfpi res st o bf bx n seen,
  configure ord true nfp_null a project = (x0, Initialised, nfpi) ->
  f_alt x0 = Fin lnl_null ->
  fit f_alt maxev b local limit_action x0 g l = (res, st, Ran o bf bx n seen) ->
  st = Some bx /\ in_bounds b bx = true /\
  (f_alt bx = PInf \/ exists z, f_alt bx = Fin z /\ 0 <= LR z lnl_null).
Proof. exact hypothesis_LR_nonneg_lemma. Qed.

(** the same with the premise "reproduced lnL(null)" discharged by
    projection_exact, for any likelihood [L] that depends on the parameters only
    through the cells of the rate matrix *)
Theorem nested_hypothesis_LR_nonneg : forall (A : Type) (m : cm_ops A), cm_laws m ->
  forall (L : (cell -> A) -> fv) ex rich simple (theta : name -> A)
    ord nfp_null a project f_alt maxev b local limit_action g l lnl_null x0 nfpi res st o bf bx n seen,
  (forall r1 r2, (forall c, r1 c = r2 c) -> L r1 = L r2) ->
  NoDup (map fst rich) -> nested_ok ex rich simple = true ->
  L (rate m simple theta) = Fin lnl_null ->
  f_alt x0 = L (rate m rich (theta' m ex rich simple theta)) ->
  configure ord true nfp_null a project = (x0, Initialised, nfpi) ->
  fit f_alt maxev b local limit_action x0 g l = (res, st, Ran o bf bx n seen) ->
  st = Some bx /\ in_bounds b bx = true /\
  (f_alt bx = PInf \/ exists z, f_alt bx = Fin z /\ 0 <= LR z lnl_null).
Proof. exact nested_hypothesis_LR_nonneg_lemma. Qed.

(** without a successful initialisation the guarantee is gone (witness) *)
Theorem swallowed_init_can_give_negative_LR :
  let f := fun x : point => match x with [0] => Fin 3 | _ => Fin 0 end in
  let a := mkalt 6 (Some 10) [0] in
  exists res st o bf bx n seen,
    alt_step false true 6 a (fun _ => MOk [5]) f None NoBounds (Some true) 0 [] []
    = (Swallowed 9, (res, st, Ran o bf bx n seen)) /\ bf = Fin 3 /\ LR 3 10 < 0.
Proof. exact swallowed_init_negative_LR_witness. Qed.

(** Part 5: rate classes.  What exact initialisation would mean for bins > 1
    (NOT a theorem about the code: the code refuses, see bins_refused): for an
    initialisation function [init] on bin-scoped rules, every (parameter, edge,
    bin) triple a rule of the alternate covers receives the nested model's
    value there — in particular the per-bin "rate" parameters and "bprobs" of
    the discrete-gamma distribution, so that every class k has rate matrix
    r_k * Q with the nested r_k and Q, and the mixture sum_k b_k L_k is unchanged. *)
Definition stmt_bins_exact (init : list brule -> list brule -> mres (list brule)) : Prop :=
  forall rich null new, init rich null = MOk new ->
  forall r p e k v, In r rich -> b_par r = p ->
    (match b_edges r with None => True | Some es => mem_name e es = true end) ->
    (match b_bins r with None => True | Some ks => mem_name k ks = true end) ->
    bvalue_at null p e k = Some v -> bvalue_at new p e k = Some v.

(** the part of the code that refuses: compatible_likelihood_functions *)
Theorem bins_refused : forall nb1 nb2 nl1 nl2 me ne,
  nb1 <> 1 \/ nb1 <> nb2 -> compatible nb1 nb2 nl1 nl2 me ne = MErr 7.
Proof. exact bins_refused_lemma. Qed.

(** and why it has to: rule keys ignore the bin, two per-bin rules collide *)
Theorem bin_rules_collide :
  let r0 := mkbrule [114;97;116;101] None (Some [[48]]) 1 in
  let r1 := mkbrule [114;97;116;101] None (Some [[49]]) 3 in
  key_eqb (forget_bins r0) (forget_bins r1) = true /\
  dedup_last (map forget_bins [r0; r1]) = [forget_bins r1].
Proof. exact bin_rules_collide_witness. Qed.

(** Part 3, continued: the transcribed update_param_rules (same = False, with the
    appended "ref_cell" pseudo rule) assigns exactly those values, and end to end
    the rules produced for a fresh non-stationary alternate give the nested rate
    matrix divided by rho on every cell *)
Theorem projected_rules_assign_not_same : forall ex pi rho rich simple pm rules n rc,
  param_mapping ex rich simple = MOk pm ->
  NoDup (map fst rich) ->
  (forall r, In r rules -> In (q_par r) (map fst simple) /\
                           name_eqb (q_par r) n_mprobs || name_eqb (q_par r) n_length = false) ->
  In ref_cell (map fst simple) ->
  In (n, rc) rich -> name_eqb n ref_cell = false ->
  lookup_qrule n (update_param_rules_not_same pi rho rich pm rules)
  = match pick_simple ex rich simple rc, last_col rc with
    | PChosen s, Some j =>
        match lookup_qrule s (rules ++ [mkqrule ref_cell None 1%Qc]) with
        | Some v => Some (pi j * v / rho)%Qc
        | None => None
        end
    | _, _ => None
    end.
Proof. exact projected_rules_assign_ns_lemma. Qed.

Theorem initialised_rates_exact_not_same : forall ex pi rho rich simple pm rules,
  param_mapping ex rich simple = MOk pm ->
  nested_ok_ns ex rich simple = true ->
  NoDup (map fst rich) ->
  (forall r, In r rules -> In (q_par r) (map fst simple) /\
                           name_eqb (q_par r) n_mprobs || name_eqb (q_par r) n_length = false) ->
  In ref_cell (map fst simple) ->
  lookup_qrule ref_cell rules = None ->
  (forall s, In s (map fst simple) -> name_eqb s ref_cell = false -> lookup_qrule s rules <> None) ->
  rho <> 0%Qc ->
  (forall c, In c (coords_of ref_cell rich) -> pi (snd c) = rho) ->
  forall c, In c (universe rich simple) ->
    (Q_nonstationary rich (theta_from_q (update_param_rules_not_same pi rho rich pm rules)) c * rho
     = Q_stationary pi simple (theta_from_q rules) c)%Qc.
Proof. exact init_rates_exact_ns_lemma. Qed.

(** Part 3, rules with "init"/"value" fields: a CONSTANT term of the nested model
    (its number sits under "value") goes through the projection exactly like a
    free one: what update_rule_value hands to the rich rule is the PROJECTED
    number, and the rule keeps its scope *)
Theorem constant_terms_are_projected : forall pi rho rich pm r mle r',
  name_eqb (p_par r) n_mprobs || name_eqb (p_par r) n_length = false ->
  p_mle r = Some mle -> In r' (project_prule pi rho rich pm r) ->
  exists v, In (p_par r', v) (rate_not_same pi rho rich pm (p_par r) mle) /\
            null_rule_value r' = Some v /\ p_edges r' = p_edges r.
Proof. exact project_prule_value_lemma. Qed.

Theorem projected_rule_values_agree : forall pi rho rich pm r mle,
  name_eqb (p_par r) n_mprobs || name_eqb (p_par r) n_length = false ->
  p_mle r = Some mle ->
  map (fun r' => (p_par r', null_rule_value r')) (project_prule pi rho rich pm r)
  = map (fun nv => (fst nv, Some (snd nv))) (rate_not_same pi rho rich pm (p_par r) mle).
Proof. exact project_prule_agrees_lemma. Qed.

(** reading "value" before "init" would hand over the un-projected constant (witness) *)
Theorem value_first_reads_unprojected :
  let pi := fun j : Z => if j =? 1 then Q2Qc (1 # 2) else Q2Qc (1 # 4) in
  let rich := [([1], [(0, 1)]); (ref_cell, [(1, 0)])] in
  let pm := [([9], [[1]])] in
  let r := mkprule [9] None true (Some (Q2Qc 2)) None in
  map null_rule_value (project_prule pi (Q2Qc (1 # 4)) rich pm r) = [Some (Q2Qc 4)] /\
  map null_rule_value_value_first (project_prule pi (Q2Qc (1 # 4)) rich pm r) = [Some (Q2Qc 2)].
Proof. exact value_first_unprojected_witness. Qed.

(** Part 6: bounds declared per scope of a parameter (_LeafDefn.assign_all,
    get_current_bounds), Model/ScopeBounds.v.  Rules that only re-scope a
    parameter (no lower/upper stated) keep every cell's declared bounds; stated
    bounds win on the selected cells only.  So "every optimised value lies
    within the bounds declared for its cell" follows from [within_bounds]. *)
From CG3 Require Import Model.ScopeBounds Proofs.ScopeBoundsProofs.

Theorem independent_split_keeps_declared_bounds : forall t edges e,
  NoDup (map fst t) -> blookup (apply_rule t edges true None None) e = blookup t e.
Proof. exact independent_split_keeps_lemma. Qed.

Theorem uniform_scope_keeps_declared_bounds : forall t scope b e,
  (forall c, In c t -> mem_name (fst c) scope = true -> snd c = b) ->
  blookup (assign_scope t scope None None) e = blookup t e.
Proof. exact assign_scope_keeps_lemma. Qed.

Theorem stated_bounds_win_on_selected_cells : forall t scope lo hi e,
  envelope t scope <> None ->
  blookup (assign_scope t scope (Some lo) (Some hi)) e
  = if mem_name e scope then match blookup t e with Some _ => Some (lo, hi) | None => None end else blookup t e.
Proof. exact assign_scope_states_lemma. Qed.

(** computing the inherited bounds once for the whole selection widens them (witness) *)
Theorem envelope_of_selection_widens_bounds :
  let t := [([97], (5, 20)); ([98], (5, 20)); ([99], (0, 1000)); ([100], (0, 1000))] in
  apply_rule t [[97]; [98]; [99]; [100]] true None None = t /\
  blookup (apply_rule_envelope_of_selection t [[97]; [98]; [99]; [100]] true None None) [97] = Some (0, 1000).
Proof. exact split_rule_bounds_witness. Qed.

(** Part 7: update_from_calculator (the copy of the optimiser's best point back
    into the likelihood function, in the [finally:] of optimise),
    Model/UpdateFromCalc.v: the stored value is the calculator's value, or the
    bound that value overshot by no more than the tolerance of numpy.allclose —
    never the other bound *)
From CG3 Require Import Model.UpdateFromCalc Proofs.UpdateFromCalcProofs.

Theorem update_snaps_to_the_overshot_bound : forall close lo hi out v,
  update_one close false lo hi out = UOk v ->
  v = out \/
  (exists l, truthy lo = Some l /\ v = l /\ out < l /\ close out l = true) \/
  (exists u, truthy hi = Some u /\ v = u /\ u < out /\ close out u = true).
Proof. exact update_snaps_lemma. Qed.

Theorem update_value_within_bounds : forall close lo hi out v,
  update_one close false lo hi out = UOk v ->
  (forall l u, truthy lo = Some l -> truthy hi = Some u -> l <= u) ->
  (forall l, truthy lo = Some l -> l <= v) /\ (forall u, truthy hi = Some u -> v <= u).
Proof. exact update_within_bounds_lemma. Qed.

Theorem update_moves_within_tolerance : forall close tol lo hi out v,
  (forall a b, close a b = true -> Z.abs (a - b) <= tol) -> 0 <= tol ->
  update_one close false lo hi out = UOk v -> Z.abs (v - out) <= tol.
Proof. exact update_moves_within_tolerance_lemma. Qed.

(** the swapped assignment stores the far bound (witness) *)
Theorem swapped_upper_branch_stores_lower_bound :
  update_one allclose false (Some 500000000000) (Some 3000000000000) 3000000000001 = UOk 3000000000000 /\
  update_one_swapped allclose false (Some 500000000000) (Some 3000000000000) 3000000000001 = UOk 500000000000.
Proof. exact swapped_branch_witness. Qed.
