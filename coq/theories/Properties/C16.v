(** C16 — Nested-model initialisation and optimisation never lose likelihood.
    Only theorem statements; every proof is [exact <lemma>].

    Part 1: the optimiser wrapper (cogent3.maths.optimisers maximise/minimise,
    limited_use, bounded_function, bounds_exception_catching_function) driven by
    an ADVERSARIAL optimiser: [g] and [l] are the arbitrary action lists of the
    global and the local optimiser (queries anywhere, crashes, early stop),
    [f] an arbitrary objective (finite values, +-inf, NaN, exceptions),
    [maxev] any max_evaluations, [b] any bounds, [local] any of None/True/False.
    [Ran o bf bx n seen] = the try/finally block of maximise ran and get_best()
    produced value [bf] at vector [bx] after [n] evaluations; [o] says whether
    maximise then returns [bx] ([Done]) or re-raises ([Limit], [Crashed]). *)
From CG3 Require Import Lib.PyZ Model.Optim Spec.OptimSpec Proofs.OptimProofs.

(** optimisation never returns a lower value than it started from *)
Theorem never_worse : forall f maxev b local x0 g l o bf bx n seen s,
  maximise f maxev b local x0 g l = (Ran o bf bx n seen, s) ->
  exists v0, f x0 = Fin v0 /\ f bx = bf /\ at_least bf v0.
Proof. exact never_worse_lemma. Qed.

(** the returned vector is within the declared bounds *)
Theorem within_bounds : forall f maxev b local x0 g l o bf bx n seen s,
  maximise f maxev b local x0 g l = (Ran o bf bx n seen, s) -> in_bounds b bx = true.
Proof. exact within_bounds_lemma. Qed.

(** the function (calculator) is left at the returned best vector, not at the
    last point the optimiser looked at — also when the run ends by the
    evaluation limit or by an exception *)
Theorem calculator_left_at_best : forall f maxev b local x0 g l o bf bx n seen s,
  maximise f maxev b local x0 g l = (Ran o bf bx n seen, s) -> lf_state_after s = Some bx.
Proof. exact left_at_best_lemma. Qed.

(** the returned vector maximises f over ALL evaluated points (start included),
    and every evaluated point is within bounds *)
Theorem best_is_max : forall f maxev b local x0 g l o bf bx n seen s,
  maximise f maxev b local x0 g l = (Ran o bf bx n seen, s) ->
  is_argmax f (calls s) bx /\ In x0 (calls s) /\ (forall q, In q (calls s) -> in_bounds b q = true).
Proof. exact best_is_max_lemma. Qed.

(** evaluation accounting under any limit *)
Theorem evaluation_limit_respected : forall f maxev b local x0 g l o bf bx n seen s,
  maximise f maxev b local x0 g l = (Ran o bf bx n seen, s) ->
  zlen (calls s) = n + 1 /\ 1 <= n /\
  (forall m, maxev = Some m -> n <= m) /\
  (forall k, o = Limit k -> k = n /\ maxev = Some n).
Proof. exact evals_lemma. Qed.

(** get_best() always has a best point to re-evaluate *)
Theorem get_best_total : forall f maxev b local x0 g l s,
  maximise f maxev b local x0 g l <> (Broken, s).
Proof. exact never_broken_lemma. Qed.

(** non-vacuity: from every valid start, for every adversary, the block runs *)
Theorem runs_from_every_valid_start : forall f maxev b local x0 g l v0,
  f x0 = Fin v0 -> in_bounds b x0 = true -> (forall m, maxev = Some m -> 1 <= m) ->
  exists o bf bx n seen s, maximise f maxev b local x0 g l = (Ran o bf bx n seen, s).
Proof. exact runs_if_valid_start_lemma. Qed.

(** minimise: never returns a higher value, within bounds, left at the result *)
Theorem never_worse_minimise : forall f maxev b local x0 g l o bf bx n seen s,
  minimise f maxev b local x0 g l = (Ran o bf bx n seen, s) ->
  exists v0, f x0 = Fin v0 /\ at_most (f bx) v0 /\ in_bounds b bx = true /\ lf_state_after s = Some bx.
Proof. exact never_worse_min_lemma. Qed.

(** likelihood ratio of an alternate started where its lnL equals the null's *)
Theorem LR_nonneg : forall f maxev b local x0 g l o bx n seen s lnl_null lnl_alt,
  f x0 = Fin lnl_null ->
  maximise f maxev b local x0 g l = (Ran o (Fin lnl_alt) bx n seen, s) ->
  0 <= LR lnl_alt lnl_null.
Proof. exact LR_nonneg_lemma. Qed.

(** Part 2: initialising the richer model from the nested one
    (cogent3.evolve.likelihood_function _get_param_mapping, _ParamProjection,
    update_scoped_rules).  [ex] / [keep] select which of the two transcribed
    variants of the source is meant: [false] = the pinned code, [true] = the
    code with the proposed fixes C16-2 / C16-1 (the harness sets the flag from
    the behaviour of the implementation it runs against). *)
From Coq Require Import Permutation.
From CG3 Require Import Lib.Semiring Model.Nested Spec.NestedSpec Proofs.NestedProofs.

(** under the nesting condition, the rich model initialised from the nested
    one has, on EVERY cell of the rate matrix, the rate the nested model has —
    for every assignment of parameter values in any commutative monoid *)
Theorem projection_exact : forall (A : Type) (m : cm_ops A), cm_laws m ->
  forall ex rich simple, NoDup (map fst rich) -> nested_ok ex rich simple = true ->
  forall (theta : name -> A) c, rate m rich (theta' m ex rich simple theta) c = rate m simple theta c.
Proof. exact projection_exact_lemma. Qed.

(** the nesting condition excludes the "tied for matrix space" ValueError *)
Theorem nested_ok_mapping_defined : forall ex rich simple,
  nested_ok ex rich simple = true -> zlen simple <= zlen rich ->
  exists mp, param_mapping ex rich simple = MOk mp.
Proof. exact nested_ok_no_tie. Qed.

(** non-vacuity: HKY85 within GTR satisfies the hypotheses (both variants) *)
Theorem hky85_in_gtr_satisfies_nested_ok :
  nested_ok false gtr_coords hky_coords = true /\ nested_ok true gtr_coords hky_coords = true /\
  NoDup (map fst gtr_coords).
Proof. exact hky_in_gtr_nested_ok. Qed.

(** a scoped rule of the alternate keeps its scope and takes the value of the
    nested rule with the same key, or of the UNIQUE nested rule of the same
    parameter that is global or shares an edge with it (or, fixed variant
    only, keeps its own value when there is none) *)
Theorem scoped_rule_inherits : forall keep nulld null_rem r es out,
  r_edges r = Some es -> scoped_one keep nulld null_rem r = MOk out ->
  exists v, out = [mkrule (r_par r) (Some es) v] /\
    ((exists n, In n nulld /\ key_eqb r n = true /\ v = r_val n)
     \/ (exists n, In n null_rem /\ overlaps r n es /\ v = r_val n /\ scope_matches r null_rem = [n])
     \/ (keep = true /\ scope_matches r null_rem = [] /\ v = r_val r)).
Proof. exact scoped_rule_inherits_lemma. Qed.

Theorem scoped_fixed_never_index_error : forall nulld null_rem r, scoped_one true nulld null_rem r <> MErr 1.
Proof. exact scoped_one_fixed_no_index_error. Qed.

(** REFUTED for the pinned code (finding C16-1): initialisation is not total on
    nested scopes — a scoped parameter of the alternate without counterpart in
    the nested model raises IndexError; the fixed variant keeps the rule *)
Theorem scoped_rules_total_refuted :
  update_scoped_rules false [mkrule [1] (Some [[10]]) 1] [mkrule [2] (Some [[10]]) 2] = MErr 1 /\
  update_scoped_rules true [mkrule [1] (Some [[10]]) 1] [mkrule [2] (Some [[10]]) 2] = MOk [mkrule [1] (Some [[10]]) 1].
Proof. exact scoped_pinned_index_error_witness. Qed.

(** REFUTED for the pinned code (finding C16-2): with rich = simple + an extra
    predicate inside two unchanged ones (the H04G -> H04GGK shape) the
    smallest-superset rule does not reproduce the nested rates; the fixed rule does *)
Theorem projection_pinned_rule_refuted :
  rate zmul sh_rich (theta' zmul false sh_rich sh_simple sh_theta) (0, 1) <> rate zmul sh_simple sh_theta (0, 1) /\
  rate zmul sh_rich (theta' zmul true sh_rich sh_simple sh_theta) (0, 1) = rate zmul sh_simple sh_theta (0, 1).
Proof. exact pinned_rule_not_exact_witness. Qed.

(** update_param_rules (same = True) with the mapping of _get_param_mapping
    assigns to every rich parameter (not "ref_cell", with at least one cell) the
    value of the rule of its chosen simple parameter, and nothing else *)
Theorem projected_rules_assign : forall ex rich simple pm rules n rc,
  param_mapping ex rich simple = MOk pm ->
  NoDup (map fst rich) ->
  (forall r, In r rules -> In (r_par r) (map fst simple) /\
                           name_eqb (r_par r) n_mprobs || name_eqb (r_par r) n_length = false) ->
  In (n, rc) rich -> name_eqb n ref_cell = false -> rc <> [] ->
  lookup_rule n (update_param_rules_same rich pm rules)
  = match pick_simple ex rich simple rc with PChosen s => lookup_rule s rules | _ => None end.
Proof. exact projected_rules_assign_lemma. Qed.

(** end to end on the transcribed functions (integer parameter values, fresh
    alternate = all rate parameters 1): under the nesting condition the rules
    produced for the alternate give, on every cell, the nested model's rate *)
Theorem initialised_rates_exact : forall ex rich simple pm rules,
  param_mapping ex rich simple = MOk pm ->
  nested_ok ex rich simple = true ->
  NoDup (map fst rich) ->
  (forall r, In r rules -> In (r_par r) (map fst simple) /\
                           name_eqb (r_par r) n_mprobs || name_eqb (r_par r) n_length = false) ->
  lookup_rule ref_cell rules = None ->
  forall c, rate zmul rich (theta_from (update_param_rules_same rich pm rules)) c
            = rate zmul simple (theta_from rules) c.
Proof. exact init_rates_exact_lemma. Qed.

(** scoping: a scoped rule [r] of the alternate (edges [es], [e] one of them).
    If no other rule of the alternate for that parameter covers [e] (they are
    scoped and non-empty), every nested rule of the parameter sharing an edge
    with [es] covers [e] (nesting), and the nested rules covering [e] agree on
    the value [v], then after update_scoped_rules the alternate has [v] on
    (parameter, e) — whenever update_scoped_rules returns *)
Theorem scope_exact : forall keep rich null new r es e v,
  update_scoped_rules keep rich null = MOk new ->
  dedup_last rich = rich -> dedup_last null = null ->
  In r rich -> r_edges r = Some es -> mem_name e es = true ->
  (forall r', In r' rich -> r' <> r -> r_par r' = r_par r ->
              exists es', r_edges r' = Some es' /\ es' <> [] /\ mem_name e es' = false) ->
  (forall n ns, In n null -> r_par n = r_par r -> r_edges n = Some ns -> names_meet ns es = true ->
                mem_name e ns = true) ->
  (forall n, In n null -> r_par n = r_par r -> covers_edge n e = true -> r_val n = v) ->
  value_at null (r_par r) e = Some v ->
  value_at new (r_par r) e = Some v.
Proof. exact scope_exact_lemma. Qed.

(** non-vacuity of scope_exact: kappa on {a,b} and on {c} in the alternate,
    kappa = 5 on {a,b,c} in the nested model *)
Theorem scope_exact_nonvacuous :
  let rich := [mkrule [1] (Some [[10];[11]]) 1; mkrule [1] (Some [[12]]) 1] in
  let null := [mkrule [1] (Some [[10];[11];[12]]) 5] in
  exists new, update_scoped_rules false rich null = MOk new /\ value_at new [1] [10] = Some 5.
Proof. exact scope_exact_instance. Qed.
