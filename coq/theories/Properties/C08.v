(** C08 — Gapped-coordinate maps agree with the gapped string they describe. *)
From CG3 Require Import Lib.PyZ Lib.Val Model.IndelMap Spec.IndelMapSpec Proofs.IndelMapBounded.

Theorem slice_bounded_partial : forall (k : list bool) (a b : Z),
  (length k <= 10)%nat -> 0 <= a -> a <= b -> b <= zlen k ->
  exists m', getitem_slice (from_mask k) (Some a) (Some b) = Ok m'
             /\ m' = from_mask (msub k a b) /\ abs m' = msub k a b.
Proof. exact slice_bounded. Qed.
