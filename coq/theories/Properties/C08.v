(** C08 — Gapped-coordinate maps agree with the gapped string they describe.

    Objects.  A gapped string is its gap mask [k : list bool] ([true] =
    residue, [false] = gap character).  [from_mask] is the model of
    [Sequence.parse_out_gaps]; [abs : imap -> list bool] (Spec/IndelMapSpec.v)
    reads a map [(gap_pos, cum_gap_lengths, parent_length)] back as a string;
    [WF] is the class invariant (insertion points strictly increasing within
    [0, parent_length], cumulative lengths strictly increasing and positive).
    [WF m <-> exists k, m = from_mask k] (wf_from_mask / from_mask_abs), so a
    theorem "for every well-formed map" is a theorem about every gapped string.

    Naming: [_partial] = proved for part of the domain the property quantifies
    over (the guard or the length bound is in the statement; bounded ones are
    decided by complete enumeration inside Coq); [_refuted] = the faithful
    model of the code violates the unguarded statement (witness computed by
    [vm_compute]; replayed on the implementation by harness/props/c08.py).
    This file contains nothing but statements closed by [exact]. *)
From CG3 Require Import Lib.PyZ Lib.Val Model.IndelMap Spec.IndelMapSpec Spec.IndelMapStringOps.
From CG3 Require Import Model.IndelMapFixed Model.FeatureMap Spec.FeatureMapSpec Proofs.FeatureMapBounded.
From CG3 Require Import Proofs.IndelMapProofs Proofs.IndelMapOps Proofs.IndelMapSlice Proofs.IndelMapIndex
                        Proofs.IndelMapMain Proofs.IndelMapBounded Proofs.IndelMapFixedProofs
                        Proofs.IndelMapMerge Proofs.IndelMapShared Proofs.IndelMapJoin Proofs.FeatureMapProofs
                        Proofs.FeatureMapCovInv Proofs.IndelMapGenEq Proofs.IndelMapGenMain.
From CG3 Require Import Model.FeatureMapPrims Model.FeatureMapFixed Proofs.FeatureMapGenEq Proofs.FeatureMapGenMain
                        Proofs.FeatureMapFixedProofs.
From CG3gen Require Import IndelMapGen FeatureMapGen.
Import G. Import GF.

(** * construction: string -> map -> string *)

Theorem wf_from_mask : forall k : list bool, WF (from_mask k).
Proof. exact IndelMapOps.wf_from_mask. Qed.

Theorem abs_from_mask : forall k : list bool, abs (from_mask k) = k.
Proof. exact IndelMapOps.abs_from_mask. Qed.

(** canonicity: a well-formed map IS the map of the string it spells *)
Theorem from_mask_abs : forall m : imap, WF m -> from_mask (abs m) = m.
Proof. exact IndelMapOps.from_mask_abs. Qed.

(** * length, spans (gap runs and ungapped segments in order) *)

Theorem len_spec : forall m : imap, WF m -> len m = zlen (abs m).
Proof. exact IndelMapOps.len_spec. Qed.

Theorem spans_spec : forall m : imap, WF m -> spans_mask m = abs m.
Proof. exact IndelMapOps.spans_mask_spec. Qed.

(** * alignment index -> sequence index = residues in front of the position *)

Theorem seq_index_spec : forall (m : imap), WF m -> forall x : Z, 0 <= x <= len m ->
  get_seq_index m x = Ok (residues (firstn (Z.to_nat x) (abs m))).
Proof. exact IndelMapSlice.get_seq_index_spec. Qed.

Theorem seq_index_negative : forall (m : imap), WF m -> forall x : Z, - len m <= x < 0 ->
  get_seq_index m x = Ok (residues (firstn (Z.to_nat (len m + x)) (abs m))).
Proof. exact IndelMapSlice.get_seq_index_neg. Qed.

(** * sequence index -> alignment index = position of that residue; as a slice
    stop: the shortest prefix holding that many residues *)

Theorem align_index_spec : forall (m : imap) (s : Z), WF m -> 0 <= s < parent_length m ->
  exists a, get_align_index m s false = Ok a /\ is_align_index (abs m) s a.
Proof. exact IndelMapIndex.align_index_spec. Qed.

Theorem align_stop_spec : forall (m : imap) (s : Z), WF m -> 0 <= s <= parent_length m ->
  exists a, get_align_index m s true = Ok a /\ is_align_stop (abs m) s a.
Proof. exact IndelMapIndex.align_stop_spec. Qed.

(** the two readings determine the value *)
Theorem is_align_index_unique : forall (k : list bool) (s a a' : Z),
  is_align_index k s a -> is_align_index k s a' -> a = a'.
Proof. exact IndelMapIndex.is_align_index_unique. Qed.

Theorem is_align_stop_unique : forall (k : list bool) (s a a' : Z),
  is_align_stop k s a -> is_align_stop k s a' -> a = a'.
Proof. exact IndelMapIndex.is_align_stop_unique. Qed.

Theorem align_index_negative : forall (m : imap) (s : Z), WF m -> - parent_length m <= s < 0 ->
  exists a, get_align_index m s false = Ok a /\ is_align_index (abs m) (s + parent_length m) a.
Proof. exact IndelMapIndex.align_index_neg_spec. Qed.

Theorem align_index_out_of_range : forall (m : imap) (s : Z) (b : bool), WF m -> s < - parent_length m ->
  get_align_index m s b = Err E_Index.
Proof. exact IndelMapIndex.align_index_out_of_range_wf. Qed.

Theorem seq_align_roundtrip : forall (m : imap) (s : Z), WF m -> 0 <= s < parent_length m ->
  exists a, get_align_index m s false = Ok a /\ get_seq_index m a = Ok s.
Proof. exact IndelMapIndex.seq_align_roundtrip. Qed.

(** * slicing by any alignment interval *)

Theorem slice_spec : forall (m : imap) (a b : Z),
  WF m -> 0 <= a -> a <= b -> b <= len m ->
  exists m', getitem_slice m (Some a) (Some b) = Ok m' /\ WF m' /\ abs m' = msub (abs m) a b.
Proof. exact IndelMapSlice.slice_spec. Qed.

(** the same in the literal form of the property *)
Theorem slice_from_mask : forall (k : list bool) (a b : Z),
  0 <= a -> a <= b -> b <= zlen k ->
  getitem_slice (from_mask k) (Some a) (Some b) = Ok (from_mask (msub k a b)).
Proof. exact IndelMapMain.slice_from_mask. Qed.

(** with Python's conventions for [None] and negative bounds (in range) *)
Theorem slice_spec_python : forall (m : imap) (oa ob : option Z),
  WF m ->
  let a := py_bound (len m) 0 oa in
  let b := py_bound (len m) (len m) ob in
  0 <= a -> 0 <= b <= len m ->
  exists m', getitem_slice m oa ob = Ok m' /\ WF m' /\ abs m' = msub (abs m) a (Z.max a b).
Proof. exact IndelMapSlice.slice_spec_python. Qed.

(** full statement with Python's clamping of a stop beyond the end — FALSE of the code *)
Definition stmt_slice_clamped : Prop := forall (k : list bool) (b : Z), 0 <= b ->
  exists m', getitem_slice (from_mask k) (Some 0) (Some b) = Ok m' /\ abs m' = msub k 0 b.

Theorem slice_beyond_len_refuted :
  exists k b m', b > zlen k /\
    getitem_slice (from_mask k) (Some 0) (Some b) = Ok m' /\
    abs m' <> msub k 0 b /\ len m' > zlen k.
Proof. exact IndelMapBounded.slice_beyond_len_witness. Qed.

(** * reversing, scaling *)

Theorem nucleic_reversed_spec : forall m : imap, WF m ->
  exists m', nucleic_reversed m = Ok m' /\ WF m' /\ abs m' = rev (abs m).
Proof. exact IndelMapOps.nrev_spec. Qed.

Theorem mul_spec : forall (m : imap) (s : Z), WF m -> 1 <= s ->
  exists m', mul m s = Ok m' /\ WF m' /\ abs m' = stretch s (abs m).
Proof. exact IndelMapOps.mul_spec. Qed.

(** * concatenating *)

(** read through [abs] the sum always spells the concatenation ... *)
Theorem add_abs_spec : forall m1 m2 : imap, WF m1 -> WF m2 ->
  exists m', add m1 m2 = Ok m' /\ abs m' = abs m1 ++ abs m2.
Proof. exact IndelMapOps.add_abs. Qed.

(** ... and it is the (well-formed) map of the concatenation unless a gap run
    is split over the joint *)
Definition stmt_add : Prop := forall k1 k2 : list bool,
  add (from_mask k1) (from_mask k2) = Ok (from_mask (k1 ++ k2)).

Theorem add_spec_partial : forall k1 k2 : list bool,
  ~ (ends_in_gap k1 /\ starts_with_gap k2) ->
  add (from_mask k1) (from_mask k2) = Ok (from_mask (k1 ++ k2)).
Proof. exact IndelMapMain.add_from_mask. Qed.

Theorem add_refuted :
  exists k1 k2 m', ends_in_gap k1 /\ starts_with_gap k2 /\
    add (from_mask k1) (from_mask k2) = Ok m' /\ m' <> from_mask (k1 ++ k2) /\ ~ WF m' /\
    spans_mask m' <> k1 ++ k2.
Proof. exact IndelMapMain.add_abutting_gaps_witness. Qed.

(** * gap runs, ungapped segments, alternative constructors — all strings *)

Theorem gap_coordinates_spec : forall k : list bool, get_gap_coordinates (from_mask k) = gap_insertions k.
Proof. exact IndelMapJoin.gap_coordinates_spec. Qed.

Theorem gap_coords_to_map_spec : forall k : list bool,
  gap_coords_to_map (gap_insertions k) (count_res k) = Ok (from_mask k).
Proof. exact IndelMapJoin.gap_coords_to_map_spec. Qed.

Theorem from_aligned_segments_spec : forall k : list bool, has_residue k = true ->
  from_aligned_segments (seg_runs k) (zlen k) = Ok (from_mask k).
Proof. exact IndelMapJoin.from_aligned_segments_spec. Qed.

(** [nongap] / [get_coordinates]: full statements FALSE of the pinned code, see the
    [_refuted] theorems; proved on the stated part of the domain, all lengths *)
Definition stmt_nongap : Prop := forall k : list bool, nonempty (nongap (from_mask k)) = seg_runs k.
Definition stmt_get_coordinates : Prop := forall k : list bool,
  nonempty (get_coordinates (from_mask k)) = nonempty (seq_segments k).

Theorem nongap_spec_partial : forall k : list bool, has_gap k = true -> nongap (from_mask k) = seg_runs k.
Proof. exact IndelMapJoin.nongap_spec. Qed.

Theorem get_coordinates_spec_partial : forall k : list bool,
  num_gaps (from_mask k) < 2 \/ ends_gap k = true ->
  nonempty (get_coordinates (from_mask k)) = nonempty (seq_segments k).
Proof. exact IndelMapJoin.get_coordinates_partial. Qed.

Theorem nongap_refuted :
  exists k, has_gap k = false /\ seg_runs k = [(0, 1)] /\ nongap (from_mask k) = [].
Proof. exact IndelMapBounded.nongap_gapfree_witness. Qed.

Theorem get_coordinates_refuted :
  exists k, nonempty (seq_segments k) = [(0, 1); (1, 2)] /\
            nonempty (get_coordinates (from_mask k)) = [(0, 1)].
Proof. exact IndelMapBounded.get_coordinates_witness. Qed.

(** * gap runs in alignment coordinates; merging / subtracting / intersecting gaps — all inputs *)

Theorem gap_align_coordinates_spec : forall m : imap, WF m -> get_gap_align_coordinates m = gap_runs (abs m).
Proof. exact IndelMapShared.gap_align_coordinates_spec. Qed.

(** two gap layouts of the same sequence: gap counts in front of each residue add up *)
Theorem merge_maps_spec : forall m1 m2 : imap, WF m1 -> WF m2 -> parent_length m1 = parent_length m2 ->
  exists m', merge_maps m1 m2 None = Ok m' /\ WF m' /\ abs m' = mask_merge (abs m1) (abs m2).
Proof. exact IndelMapMerge.merge_maps_spec. Qed.

Theorem merge_from_mask : forall k1 k2 : list bool, count_res k1 = count_res k2 ->
  merge_maps (from_mask k1) (from_mask k2) None = Ok (from_mask (mask_merge k1 k2)).
Proof. exact IndelMapMerge.merge_from_mask. Qed.

(** two rows of the same alignment: the columns where both have a gap *)
Theorem shared_gaps_spec : forall m1 m2 : imap, WF m1 -> WF m2 -> len m1 = len m2 ->
  shared_gaps m1 m2 = Ok (mask_shared (abs m1) (abs m2)).
Proof. exact IndelMapShared.shared_gaps_spec. Qed.

(** ... and the row with those columns removed *)
Theorem minus_gaps_spec : forall m1 m2 : imap, WF m1 -> WF m2 -> len m1 = len m2 ->
  exists m', minus_gaps m1 m2 = Ok m' /\ WF m' /\ abs m' = mask_minus (abs m1) (abs m2).
Proof. exact IndelMapShared.minus_gaps_spec. Qed.

Theorem minus_gaps_from_mask : forall k1 k2 : list bool, zlen k1 = zlen k2 ->
  minus_gaps (from_mask k1) (from_mask k2) = Ok (from_mask (mask_minus k1 k2)).
Proof. exact IndelMapShared.minus_gaps_from_mask. Qed.

(** * joining segments: the pieces [k[s:e]] of sorted, non-overlapping (possibly
    abutting) segments, glued together — all strings, any number of segments *)

Theorem joined_segments_spec : forall (k : list bool) (cs : list (Z * Z)),
  segs_ok 0 (zlen k) cs -> joined_segments (from_mask k) cs = Ok (from_mask (mask_join k cs)).
Proof. exact IndelMapJoin.joined_segments_spec. Qed.

(** * the corrected methods (Model/IndelMapFixed.v = notes/proposed_fixes/C08-*.diff)
    satisfy the unguarded statements; the check runs this variant of the
    model when the implementation behaves that way *)

Theorem slice_v2_spec : forall (m : imap) (oa ob : option Z),
  WF m ->
  let a := py_bound (len m) 0 oa in
  let b := py_bound (len m) (len m) ob in
  0 <= a -> 0 <= b ->
  exists m', getitem_slice_v2 m oa ob = Ok m' /\ WF m' /\ abs m' = msub (abs m) a (Z.max a b).
Proof. exact IndelMapFixedProofs.slice_v2_spec. Qed.

Theorem slice_v2_from_mask : forall (k : list bool) (a b : Z), 0 <= a -> 0 <= b ->
  getitem_slice_v2 (from_mask k) (Some a) (Some b) = Ok (from_mask (msub k a (Z.max a b))).
Proof. exact IndelMapFixedProofs.slice_v2_from_mask. Qed.

Theorem add_v2_spec : forall m1 m2 : imap, WF m1 -> WF m2 ->
  exists m', add_v2 m1 m2 = Ok m' /\ WF m' /\ abs m' = abs m1 ++ abs m2.
Proof. exact IndelMapFixedProofs.add_v2_spec. Qed.

Theorem add_v2_from_mask : forall k1 k2 : list bool,
  add_v2 (from_mask k1) (from_mask k2) = Ok (from_mask (k1 ++ k2)).
Proof. exact IndelMapFixedProofs.add_v2_from_mask. Qed.

Theorem listings_v2_bounded_partial : forall k : list bool, (length k <= 10)%nat ->
  nonempty (nongap_v2 (from_mask k)) = seg_runs k /\
  nonempty (get_coordinates_v2 (from_mask k)) = nonempty (seq_segments k).
Proof. exact IndelMapFixedProofs.listings_v2_bounded. Qed.

(** * FeatureMap algebra: set-theoretic meaning and "no coordinate outside the
    parent" ([in_parent] of every result).  [den] = parent position read at each map
    position, [positions] = the set covered (Spec/FeatureMapSpec.v). *)

(** composition [fm[sub]], slicing, reversal, gaps, scaling: ALL maps inside their parent
    (reversed, zero-length and lost spans included) *)

Theorem composition_spec : forall fm sub : fmap,
  in_parent fm = true -> fspans fm <> [] -> in_parent sub = true -> fplen sub = flen fm ->
  exists c, fm_getitem_map fm sub = Ok c /\ den c = compose (den fm) (den sub) /\ fplen c = fplen fm /\
            in_parent c = true.
Proof. exact FeatureMapProofs.composition_spec. Qed.

Theorem fm_getitem_slice_spec : forall (fm : fmap) (a b : option Z),
  in_parent fm = true -> fspans fm <> [] ->
  exists c, fm_getitem_slice fm a b = Ok c /\ in_parent c = true /\ fplen c = fplen fm /\
            den c = zslice (den fm) (norm_index a (flen fm) 0)
                           (Z.max (norm_index a (flen fm) 0) (norm_index b (flen fm) (flen fm))).
Proof. exact FeatureMapProofs.getitem_slice_spec. Qed.

Theorem fm_nucleic_reversed_spec : forall fm : fmap, in_parent fm = true ->
  exists c, fm_nucleic_reversed fm = Ok c /\ in_parent c = true /\ fplen c = fplen fm /\
            zlen (den c) = zlen (den fm) /\
            (all_forward fm = true -> den c = rev (map (flip (fplen fm)) (den fm))).
Proof. exact FeatureMapProofs.fm_nucleic_reversed_spec. Qed.

Theorem fm_gaps_spec : forall fm : fmap, in_parent fm = true ->
  exists c, fm_gaps fm = Ok c /\ den c = map Some (lost_cells 0 (den fm)) /\ fplen c = flen fm /\
            in_parent c = true /\ all_forward c = true.
Proof. exact FeatureMapProofs.fm_gaps_spec. Qed.

Theorem fm_without_gaps_spec : forall fm : fmap,
  den (fm_without_gaps fm) = filter (fun o => match o with Some _ => true | None => false end) (den fm).
Proof. exact FeatureMapProofs.fm_without_gaps_den. Qed.

Theorem fm_mul_spec : forall (fm : fmap) (k : Z), in_parent fm = true -> all_forward fm = true -> 1 <= k ->
  den (fm_mul fm k) = flat_map (mul_cell k) (den fm).
Proof. exact FeatureMapProofs.fm_mul_den. Qed.

Theorem fm_mul_in_parent : forall (fm : fmap) (k : Z), in_parent fm = true -> 1 <= k ->
  in_parent (fm_mul fm k) = true.
Proof. exact FeatureMapProofs.fm_mul_in_parent. Qed.

(** inverse = the inverse function, shadow = the complement: all maps whose real spans
    do not overlap (the documented precondition; overlapping maps raise "Uninvertable") *)

Theorem fm_inverse_spec : forall fm : fmap, in_parent fm = true -> disjoint_spans fm = true ->
  exists c, fm_inverse fm = Ok c /\ den c = inverse_den (fplen fm) (den fm) /\
            fplen c = zlen (den fm) /\ in_parent c = true.
Proof. exact FeatureMapCovInv.fm_inverse_spec. Qed.

Theorem fm_shadow_spec : forall fm : fmap, 0 <= fplen fm -> in_parent fm = true -> disjoint_spans fm = true ->
  exists g, fm_shadow fm = Ok g /\ den g = map Some (complement (fplen fm) (positions fm)) /\
            fplen g = fplen fm /\ in_parent g = true /\ all_forward g = true.
Proof. exact FeatureMapCovInv.fm_shadow_spec. Qed.

(** covered: the set of positions as sorted, separated forward spans — all maps *)

Theorem fm_covered_spec : forall fm : fmap, in_parent fm = true ->
  exists c, fm_covered fm = Ok c /\ den c = map Some (positions fm) /\ separated (-1) (fspans c) = true /\
            fplen c = fplen fm /\ in_parent c = true.
Proof. exact FeatureMapCovInv.fm_covered_spec. Qed.

(** * translator tie: the same headlines about the kernel REGENERATED from the current
    text of src/cogent3/core/location.py (coq/gen/IndelMapGen.v, module [G], by
    harness/translators/indelmap.py).  Proofs/IndelMapGenEq.v proves every generated
    function equal to the model function ([*_eq]); these corollaries are what the
    other theorems of this file say about the code as it is written today. *)

Theorem gen_constructor : forall (gp cl l : list Z) (plen : Z),
  g_post_init_cum gp cl plen = post_init gp cl plen /\ g_post_init_len gp l plen = post_init_lengths gp l plen.
Proof. exact IndelMapGenMain.gen_constructor. Qed.

Theorem gen_len_spec : forall m : imap, WF m -> g_len m = zlen (abs m).
Proof. exact IndelMapGenMain.gen_len_spec. Qed.

Theorem gen_seq_index_spec : forall m : imap, WF m -> forall x : Z, 0 <= x <= g_len m ->
  g_get_seq_index m x = Ok (residues (firstn (Z.to_nat x) (abs m))).
Proof. exact IndelMapGenMain.gen_seq_index_spec. Qed.

Theorem gen_align_index_spec : forall (m : imap) (s : Z), WF m -> 0 <= s < parent_length m ->
  exists a, g_get_align_index m s false = Ok a /\ is_align_index (abs m) s a.
Proof. exact IndelMapGenMain.gen_align_index_spec. Qed.

Theorem gen_align_stop_spec : forall (m : imap) (s : Z), WF m -> 0 <= s <= parent_length m ->
  exists a, g_get_align_index m s true = Ok a /\ is_align_stop (abs m) s a.
Proof. exact IndelMapGenMain.gen_align_stop_spec. Qed.

Theorem gen_slice_spec : forall (m : imap) (oa ob : option Z), WF m ->
  let a := py_bound (g_len m) 0 oa in
  let b := py_bound (g_len m) (g_len m) ob in
  0 <= a -> 0 <= b ->
  exists m', g_getitem_slice m oa ob = Ok m' /\ WF m' /\ abs m' = msub (abs m) a (Z.max a b).
Proof. exact IndelMapGenMain.gen_slice_spec. Qed.

Theorem gen_slice_from_mask : forall (k : list bool) (a b : Z), 0 <= a -> 0 <= b ->
  g_getitem_slice (from_mask k) (Some a) (Some b) = Ok (from_mask (msub k a (Z.max a b))).
Proof. exact IndelMapGenMain.gen_slice_from_mask. Qed.

Theorem gen_add_spec : forall m1 m2 : imap, WF m1 -> WF m2 ->
  exists m', g_add m1 m2 = Ok m' /\ WF m' /\ abs m' = abs m1 ++ abs m2.
Proof. exact IndelMapGenMain.gen_add_spec. Qed.

Theorem gen_add_from_mask : forall k1 k2 : list bool, g_add (from_mask k1) (from_mask k2) = Ok (from_mask (k1 ++ k2)).
Proof. exact IndelMapGenMain.gen_add_from_mask. Qed.

Theorem gen_mul_spec : forall (m : imap) (s : Z), WF m -> 1 <= s ->
  exists m', g_mul m s = Ok m' /\ WF m' /\ abs m' = stretch s (abs m).
Proof. exact IndelMapGenMain.gen_mul_spec. Qed.

Theorem gen_nucleic_reversed_spec : forall m : imap, WF m ->
  exists m', g_nucleic_reversed m = Ok m' /\ WF m' /\ abs m' = rev (abs m).
Proof. exact IndelMapGenMain.gen_nucleic_reversed_spec. Qed.

Theorem gen_gap_align_coordinates_spec : forall m : imap, WF m -> g_get_gap_align_coordinates m = gap_runs (abs m).
Proof. exact IndelMapGenMain.gen_gap_align_coordinates_spec. Qed.

Theorem gen_gap_coordinates_spec : forall k : list bool, g_get_gap_coordinates (from_mask k) = gap_insertions k.
Proof. exact IndelMapGenMain.gen_gap_coordinates_spec. Qed.

Theorem gen_get_coordinates_bounded_partial : forall k : list bool, (length k <= 10)%nat ->
  nonempty (g_get_coordinates (from_mask k)) = nonempty (seq_segments k).
Proof. exact IndelMapGenMain.gen_get_coordinates_bounded. Qed.

Theorem gen_merge_maps_spec : forall m1 m2 : imap, WF m1 -> WF m2 -> parent_length m1 = parent_length m2 ->
  exists m', g_merge_maps m1 m2 None = Ok m' /\ WF m' /\ abs m' = mask_merge (abs m1) (abs m2).
Proof. exact IndelMapGenMain.gen_merge_maps_spec. Qed.

Theorem gen_merge_from_mask : forall k1 k2 : list bool, count_res k1 = count_res k2 ->
  g_merge_maps (from_mask k1) (from_mask k2) None = Ok (from_mask (mask_merge k1 k2)).
Proof. exact IndelMapGenMain.gen_merge_from_mask. Qed.

Theorem gen_spans_spec : forall m : imap, WF m -> concat (map span_mask (g_spans m)) = abs m.
Proof. exact IndelMapGenMain.gen_spans_spec. Qed.

Theorem gen_nongap_bounded_partial : forall k : list bool, (length k <= 10)%nat ->
  nonempty (g_nongap (from_mask k)) = seg_runs k.
Proof. exact IndelMapGenMain.gen_nongap_bounded. Qed.

Theorem gen_shared_gaps_spec : forall m1 m2 : imap, WF m1 -> WF m2 -> g_len m1 = g_len m2 ->
  g_shared_gaps m1 m2 = Ok (mask_shared (abs m1) (abs m2)).
Proof. exact IndelMapGenMain.gen_shared_gaps_spec. Qed.

Theorem gen_minus_gaps_spec : forall m1 m2 : imap, WF m1 -> WF m2 -> g_len m1 = g_len m2 ->
  exists m', g_minus_gaps m1 m2 = Ok m' /\ WF m' /\ abs m' = mask_minus (abs m1) (abs m2).
Proof. exact IndelMapGenMain.gen_minus_gaps_spec. Qed.

Theorem gen_minus_gaps_from_mask : forall k1 k2 : list bool, zlen k1 = zlen k2 ->
  g_minus_gaps (from_mask k1) (from_mask k2) = Ok (from_mask (mask_minus k1 k2)).
Proof. exact IndelMapGenMain.gen_minus_gaps_from_mask. Qed.

Theorem gen_joined_segments_spec : forall (k : list bool) (cs : list (Z * Z)), segs_ok 0 (zlen k) cs ->
  g_joined_segments (from_mask k) cs = Ok (from_mask (mask_join k cs)).
Proof. exact IndelMapGenMain.gen_joined_segments_spec. Qed.

Theorem gen_from_aligned_segments_spec : forall k : list bool, has_residue k = true ->
  g_from_aligned_segments (seg_runs k) (zlen k) = Ok (from_mask k).
Proof. exact IndelMapGenMain.gen_from_aligned_segments_spec. Qed.

Theorem gen_gap_coords_to_map_spec : forall k : list bool,
  g_gap_coords_to_map (gap_insertions k) (count_res k) = Ok (from_mask k).
Proof. exact IndelMapGenMain.gen_gap_coords_to_map_spec. Qed.

(** FeatureMap: inverse / shadow / nucleic_reversed / gaps regenerated from the current text
    (coq/gen/FeatureMapGen.v, module [GF], harness/translators/featuremap.py; equalities in
    Proofs/FeatureMapGenEq.v) *)

Theorem gen_fm_inverse_spec : forall fm : fmap, in_parent fm = true -> disjoint_spans fm = true ->
  exists c, g_fm_inverse fm = Ok c /\ den c = inverse_den (fplen fm) (den fm) /\
            fplen c = zlen (den fm) /\ in_parent c = true.
Proof. exact FeatureMapGenMain.gen_fm_inverse_spec. Qed.

Theorem gen_fm_shadow_spec : forall fm : fmap, 0 <= fplen fm -> in_parent fm = true -> disjoint_spans fm = true ->
  exists g, g_fm_shadow fm = Ok g /\ den g = map Some (complement (fplen fm) (positions fm)) /\
            fplen g = fplen fm /\ in_parent g = true /\ all_forward g = true.
Proof. exact FeatureMapGenMain.gen_fm_shadow_spec. Qed.

Theorem gen_fm_nucleic_reversed_spec : forall fm : fmap, in_parent fm = true ->
  exists c, g_fm_nucleic_reversed fm = Ok c /\ in_parent c = true /\ fplen c = fplen fm /\
            zlen (den c) = zlen (den fm) /\
            (all_forward fm = true -> den c = rev (map (flip (fplen fm)) (den fm))).
Proof. exact FeatureMapGenMain.gen_fm_nucleic_reversed_spec. Qed.

Theorem gen_fm_gaps_spec : forall fm : fmap, in_parent fm = true ->
  exists c, g_fm_gaps fm = Ok c /\ den c = map Some (lost_cells 0 (den fm)) /\ fplen c = flen fm /\
            in_parent c = true /\ all_forward c = true.
Proof. exact FeatureMapGenMain.gen_fm_gaps_spec. Qed.

Theorem gen_from_locations : forall (locs : list (Z * Z)) (n : Z), g_from_locations locs n = from_locations locs n.
Proof. exact FeatureMapGenMain.gen_from_locations. Qed.

(** [make_seq_feature_map]: an alignment span [s, e) goes to the span of the residues its columns hold,
    [residues before s, residues before e) — whether or not s / e fall on gap columns, inside a gap run or in a trailing
    gap — and that span lies inside the sequence *)
Theorem gen_make_seq_feature_map_spec : forall (m : imap) (afm : fmap), WF m ->
  Forall (fun se : Z * Z => 0 <= fst se <= len m /\ 0 <= snd se <= len m) (real_spans afm) ->
  g_make_seq_feature_map m afm = Ok (mk_fmap (map (seq_image m) (real_spans afm)) (parent_length m)).
Proof. exact IndelMapGenMain.gen_make_seq_feature_map_spec. Qed.

Theorem make_seq_feature_map_spec : forall (m : imap) (afm : fmap), WF m ->
  Forall (fun se : Z * Z => 0 <= fst se <= len m /\ 0 <= snd se <= len m) (real_spans afm) ->
  make_seq_feature_map m afm = Ok (mk_fmap (map (seq_image m) (real_spans afm)) (parent_length m)).
Proof. exact IndelMapGenMain.make_seq_feature_map_spec. Qed.

Theorem seq_span_bounds : forall (m : imap) (s e : Z), WF m -> 0 <= s -> s <= e -> e <= len m ->
  0 <= residues (firstn (Z.to_nat s) (abs m)) <= residues (firstn (Z.to_nat e) (abs m)) /\
  residues (firstn (Z.to_nat e) (abs m)) <= parent_length m.
Proof. exact IndelMapMain.seq_span_bounds. Qed.

(** [Span.remap_with] after the repair of finding C08-6 (Model/FeatureMapFixed.v; the check runs this variant when the
    implementation behaves that way): composition and slicing keep their meaning, and a span lying wholly outside the map
    gives as many lost positions as it has — which the rule before the repair violates *)

Theorem composition_v2_spec : forall fm sub : fmap,
  in_parent fm = true -> fspans fm <> [] -> in_parent sub = true -> fplen sub = flen fm ->
  exists c, fm_getitem_map_v2 fm sub = Ok c /\ den c = compose (den fm) (den sub) /\ fplen c = fplen fm /\
            in_parent c = true.
Proof. exact FeatureMapFixedProofs.composition_v2_spec. Qed.

Theorem fm_getitem_slice_v2_spec : forall (fm : fmap) (a b : option Z),
  in_parent fm = true -> fspans fm <> [] ->
  exists c, fm_getitem_slice_v2 fm a b = Ok c /\ in_parent c = true /\ fplen c = fplen fm /\
            den c = zslice (den fm) (norm_index a (flen fm) 0)
                           (Z.max (norm_index a (flen fm) 0) (norm_index b (flen fm) (flen fm))).
Proof. exact FeatureMapFixedProofs.getitem_slice_v2_spec. Qed.

Theorem remap_with_wholly_outside_refuted :
  exists fm sub c, in_parent fm = true /\ fm_getitem_map fm sub = Ok c /\ zlen (den c) <> zlen (den sub).
Proof. exact FeatureMapFixedProofs.remap_with_wholly_outside_refuted. Qed.

Theorem remap_with_v2_wholly_outside :
  exists c, fm_getitem_map_v2 (mk_fmap [FS 2 5 false; FL 2; FS 7 9 true] 10) (mk_fmap [FS (-5) (-2) false] 7) = Ok c /\
            zlen (den c) = 3 /\ zlen (den (mk_fmap [FS (-5) (-2) false] 7)) = 3 /\ den c = [None; None; None].
Proof. exact FeatureMapFixedProofs.remap_with_v2_wholly_outside. Qed.

(** * the hypotheses are satisfiable: concrete instances *)
Theorem wf_example : WF (from_mask [false; true; true; false; true; false; false]).
Proof. exact IndelMapOps.wf_example_2. Qed.

Theorem small_map_example : small_map (mk_fmap [FS 0 2 false; FS 1 3 true] 3).
Proof. exact FeatureMapBounded.small_map_example. Qed.
