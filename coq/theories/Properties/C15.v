(** C15 — Distance estimation and distance-based trees are exact on exact data.
    Only theorem statements; every proof is [exact <lemma>].

    Model: [Model/Dist.v] (evolve/fast_distance.py + the numba kernel),
    [Model/NJ.v] (phylo/nj.py, cluster/UPGMA.py).  Counts are integers,
    everything before the transcendental step is an exact rational, distances
    are expression trees with uninterpreted ln / sqrt: an equality of results
    below holds for every interpretation of ln and sqrt. *)
From Coq Require Import QArith Qminmax Permutation.
From CG3 Require Import Lib.PyZ Model.Dist Model.NJ Spec.DistSpec Spec.SplitSpec Proofs.DistProofs Proofs.DistRunProofs Proofs.DistDupProofs Proofs.NJProofs Proofs.NJRunProofs Proofs.NJCompleteProofs Proofs.UPGMAProofs Proofs.NJQuartetProofs Proofs.NJCherryProofs Proofs.NJTreeMetricProofs Proofs.NJBtreeProofs.
Open Scope Z_scope.

(** ------------------------------------------------------------------ pairwise counts *)

(** the kernel's cell (a, b) = number of columns showing exactly (a, b) with both states canonical *)
Theorem diversity_counts_columns : forall s1 s2 a b,
  diversity s1 s2 a b = count_cols s1 s2 a b.
Proof. exact diversity_is_count. Qed.

(** ... and does not depend on the order of the columns *)
Theorem diversity_column_order_invariant : forall s1 s2 t1 t2 a b,
  Permutation (combine s1 s2) (combine t1 t2) -> diversity s1 s2 a b = diversity t1 t2 a b.
Proof. exact diversity_perm_columns. Qed.

(** swapping the two sequences transposes the matrix *)
Theorem diversity_swap_transposes : forall s1 s2 a b,
  diversity s2 s1 a b = mtranspose (diversity s1 s2) a b.
Proof. exact diversity_transpose. Qed.

(** a column with a non-canonical state (gap, ambiguity: negative index) in either sequence is ignored *)
Theorem noncanonical_column_is_ignored : forall l1 l2 r1 r2 x y a b,
  length l1 = length l2 -> x < 0 \/ y < 0 ->
  diversity (l1 ++ x :: r1) (l2 ++ y :: r2) a b = diversity (l1 ++ r1) (l2 ++ r2) a b.
Proof. exact noncanonical_column_ignored. Qed.

(** matrix.sum() = number of compared sites (columns where both sequences show a canonical state);
    diag(matrix).sum() = number of compared sites at which the two sequences agree *)
Theorem total_is_number_of_compared_sites : forall dim s1 s2,
  msum dim (diversity s1 s2) = valid_columns dim (combine s1 s2).
Proof. exact msum_diversity_total. Qed.

Theorem diagonal_is_number_of_matching_sites : forall dim s1 s2,
  mdiag dim (diversity s1 s2) = matching_columns dim (combine s1 s2).
Proof. exact mdiag_diversity_matches. Qed.

(** p-distance = mismatches / compared sites, exactly; Hamming distance = mismatches *)
Theorem p_distance_exact : forall dim m total p e,
  hamming dim m = DVal total p e ->
  total = msum dim m /\ total <> 0 /\
  (p == inject_Z (msum dim m - mdiag dim m) / inject_Z (msum dim m))%Q /\
  e = RQ (Qred (inject_Z (msum dim m - mdiag dim m))).
Proof. exact hamming_p_exact. Qed.

(** ------------------------------------------------------------------ estimators (Hamming, p, JC69, TN93, paralinear, LogDet with and without the Tamura-Kumar adjustment; nucleotide layout T,C,A,G) *)

(** d computed from the transposed count matrix is the same result (same validity verdict, same
    total, same p, same distance expression): d(a,b) = d(b,a) whichever sequence comes first *)
Theorem estimator_symmetric : forall e m, estimate e (mtranspose m) = estimate e m.
Proof. exact estimate_symmetric. Qed.

Theorem estimator_sequence_order_invariant : forall e s1 s2,
  estimate e (diversity s2 s1) = estimate e (diversity s1 s2).
Proof. exact estimate_sequence_order. Qed.

Theorem estimator_column_order_invariant : forall e s1 s2 t1 t2,
  Permutation (combine s1 s2) (combine t1 t2) -> estimate e (diversity s1 s2) = estimate e (diversity t1 t2).
Proof. exact estimate_column_order. Qed.

Theorem estimator_ignores_noncanonical_columns : forall e l1 l2 r1 r2 x y,
  length l1 = length l2 -> x < 0 \/ y < 0 ->
  estimate e (diversity (l1 ++ x :: r1) (l2 ++ y :: r2)) = estimate e (diversity (l1 ++ r1) (l2 ++ r2)).
Proof. exact estimate_noncanonical. Qed.

(** zero diagonal: a sequence against itself has no off-diagonal count, and run() reports an exact
    duplicate at distance 0 (any calculator) *)
Theorem self_comparison_has_no_difference : forall dim s, any_offdiag dim (diversity s s) = false.
Proof. exact any_offdiag_self. Qed.

Theorem identical_pair_distance_zero : forall strict f dim s,
  pairwise strict f dim [s; s] = [((0, 1), CZero); ((1, 0), CZero)].
Proof. exact identical_pair_zero. Qed.

(** The duplicate shortcut of _PairwiseDistance.run (+ _expand) as in the pinned source
    ([pairwise false]; [pairwise true] models the source after the fix notes/proposed_fixes/C15-1.diff (/repo commit fa2362385),
    the driver picks the variant from the current source text).  Full statement: every reported
    cell is what the calculator's function gives on that pair's own count matrix (or 0 for a pair
    without differences).  It is FALSE of the faithful model when sequences contain non-canonical
    columns: "no off-diagonal count" is not an equivalence relation then. *)
Definition stmt_duplicate_shortcut_exact : Prop :=
  forall (f : zmat -> dist_result) dim seqs i j r,
    aget (pairwise false f dim seqs) (i, j) = Some (CRes r) ->
    r = f (diversity (znth [] seqs i) (znth [] seqs j)).

Theorem prefix_duplicate_shortcut_refuted :
  exists seqs i j r,
    aget (pairwise false (hamming 4) 4 seqs) (i, j) = Some (CRes r) /\
    r <> hamming 4 (diversity (znth [] seqs i) (znth [] seqs j)).
Proof. exact duplicate_shortcut_wrong. Qed.

(** The fixed duplicate rule ([pairwise true]: the source after notes/proposed_fixes/C15-1.diff, /repo commit fa2362385).
    FULL statement, proved for every alignment (any number of sequences, exact duplicates,
    gaps, ambiguity codes) and each of the modelled estimators: the cell of every ordered pair is 0
    for identical index arrays and otherwise the estimator's verdict ([cell_rule]: the function's
    value on the pair's own count matrix; distance 0 with the compared length for a pair that
    shows no difference but is not interchangeable). *)
Theorem fixed_duplicate_rule_exact : forall e (seqs : list (list Z)) i j,
  0 <= i < zlen seqs -> 0 <= j < zlen seqs -> i <> j ->
  In ((i, j), if list_eqb (znth [] seqs i) (znth [] seqs j) then CZero
              else CRes (cell_rule (estimate e) 4 (znth [] seqs i) (znth [] seqs j)))
     (pairwise true (estimate e) 4 seqs).
Proof. exact strict_pairwise_estimate. Qed.

(** the same for an arbitrary calculator function (the matrix may be filled in either orientation) *)
Theorem fixed_duplicate_rule_exact_any_function : forall (f : zmat -> dist_result) dim (seqs : list (list Z)) i j,
  0 <= i < zlen seqs -> 0 <= j < zlen seqs -> i <> j ->
  exists c, In ((i, j), c) (pairwise true f dim seqs) /\ Fin f dim seqs i j c.
Proof. exact strict_pairwise_exact. Qed.

(** ------------------------------------------------------------------ neighbour joining *)
Open Scope Q_scope.

(** one join at a cherry of a tree metric: the two branch lengths are the tree's *)
Theorem nj_join_branch_lengths_exact : forall L d i j a b D,
  (3 <= L)%nat -> cherry_at L d i j a b D ->
  join_left L d i j == a /\ join_right L d i j == b.
Proof. exact (fun L d i j a b D HL H => conj (join_left_exact L d i j a b D HL H) (join_right_exact L d i j a b D HL H)). Qed.

(** ... and the reduced matrix is the tree metric with the cherry contracted (the new node sits at
    old index i; new index k denotes old index [ren L j k]) *)
Theorem nj_join_reduced_matrix_exact : forall L d i j a b D k l,
  cherry_at L d i j a b D -> (k < L - 1)%nat -> (l < L - 1)%nat ->
  join_matrix L d i j k l == contracted d i D (ren L j k) (ren L j l).
Proof. exact join_matrix_exact. Qed.

(** PartialTree.join as a whole: the assert passes, the clamps max(0.0, .) are inactive, the new
    node carries the two exact lengths *)
Theorem nj_join_exact : forall t i j a b D,
  (3 <= pt_L t)%nat -> cherry_at (pt_L t) (pt_d t) i j a b D -> 0 <= a -> 0 <= b ->
  exists la lb,
    la == a /\ lb == b /\
    join t i j = Some (PT (pt_L t - 1) (join_matrix (pt_L t) (pt_d t) i j)
                          (join_nodes (pt_L t) (pt_nodes t) i j
                             (LNode [(la, nth i (pt_nodes t) dummy_tree); (lb, nth j (pt_nodes t) dummy_tree)]) dummy_tree)
                          (pt_score t + pt_d t i j)).
Proof. exact join_exact. Qed.

(** the node list is shuffled exactly like the matrix *)
Theorem nj_join_node_bookkeeping : forall (L : nat) (nodes : list ltree) i j new k,
  length nodes = L -> (i < L)%nat -> (j < L)%nat -> (k < L - 1)%nat ->
  nth k (join_nodes L nodes i j new dummy_tree) dummy_tree = nth (ren L j k) (list_set nodes i new) dummy_tree
  /\ length (join_nodes L nodes i j new dummy_tree) = (L - 1)%nat.
Proof. exact (fun L nodes i j new k HL Hi Hj Hk =>
                conj (join_nodes_nth L nodes i j new dummy_tree k HL Hi Hj Hk)
                     (join_nodes_length L nodes i j new dummy_tree HL Hi Hj)). Qed.

(** the final three-taxon step (asScoreTreeTuple) *)
Theorem nj_final_three_exact : forall d a b c,
  d 0%nat 0%nat == 0 -> d 1%nat 1%nat == 0 -> d 2%nat 2%nat == 0 ->
  d 0%nat 1%nat == a + b -> d 1%nat 0%nat == a + b ->
  d 0%nat 2%nat == a + c -> d 2%nat 0%nat == a + c ->
  d 1%nat 2%nat == b + c -> d 2%nat 1%nat == b + c ->
  Forall2 Qeq (final_lengths d) [a; b; c].
Proof. exact final_three_exact. Qed.

(** The selection criterion (Saitou-Nei / Studier-Keppler), PROVED.  [binary_tree_metric L d]
    (Spec/SplitSpec.v): d is the metric of a weighted split system on L tips - positive weights,
    proper pairwise compatible splits, a pendant split for every tip, maximal (= the tree is
    binary) - i.e. the additive matrix of a binary tree with positive branch lengths.  Then every
    off-diagonal pair that minimises the score matrix (whatever the tie order) is a cherry of the
    tree, and satisfies [cherry_at] with positive pendant lengths. *)
Theorem nj_score_minimiser_is_cherry : forall t E i j, (3 <= pt_L t)%nat ->
  split_sys (pt_L t) E -> rep (pt_L t) E (pt_d t) -> (i < pt_L t)%nat -> (j < pt_L t)%nat -> i <> j ->
  (forall x y, (x < pt_L t)%nat -> (y < pt_L t)%nat -> x <> y -> score_matrix t i j <= score_matrix t x y) ->
  is_cherry (pt_L t) E i j /\
  exists a b D, 0 < a /\ 0 < b /\ cherry_at (pt_L t) (pt_d t) i j a b D.
Proof. exact every_score_minimiser_is_a_cherry. Qed.

Theorem nj_picks_a_cherry : forall t, (3 <= pt_L t)%nat -> binary_tree_metric (pt_L t) (pt_d t) ->
  exists a b D, 0 < a /\ 0 < b /\ cherry_at (pt_L t) (pt_d t) (fst (best_pair t)) (snd (best_pair t)) a b D.
Proof. exact NJCherryProofs.nj_picks_a_cherry. Qed.

(** contracting the selected cherry gives again a binary tree metric (on L - 1 tips) *)
Theorem nj_join_keeps_binary_tree_metric : forall L E d i j, (4 <= L)%nat ->
  split_sys L E -> rep L E d -> (i < L)%nat -> (j < L)%nat -> i <> j -> is_cherry L E i j ->
  split_sys (L - 1) (E2 L E i j) /\ rep (L - 1) (E2 L E i j) (join_matrix L d i j).
Proof. exact (fun L E d i j HL Hss Hrep Hi Hj Hij Hch =>
                conj (contract_sys L E i j HL Hss Hi Hj Hij Hch) (contract_rep L E d i j Hrep Hi Hj Hij Hch)). Qed.

(** UNCONDITIONAL consistency: for the additive matrix of every binary tree with positive branch
    lengths on n >= 3 tips (any tip order), nj (model: keep = 1) returns a tree with positive branch
    lengths, exactly the input's tips, every pair of tips listed, and every listed tip-to-tip path
    length equal to the input distance.  (A tree with positive lengths is determined by its path
    metric - classical, not proved here - so this is the generating tree.) *)
Theorem nj_consistency : forall n d, (3 <= n)%nat -> binary_tree_metric n d ->
  exists T, nj n d = Some T /\ pos_tree T /\
    Permutation (names T) (map Z.of_nat (seq 0 n)) /\
    (forall x y, (x < n)%nat -> (y < n)%nat -> x <> y ->
       exists q, (In (Z.of_nat x, Z.of_nat y, q) (tip_dists T) \/ In (Z.of_nat y, Z.of_nat x, q) (tip_dists T)) /\ q == d x y) /\
    (forall x y q, In (x, y, q) (tip_dists T) -> q == d (Z.to_nat x) (Z.to_nat y)).
Proof. exact nj_consistent. Qed.

(** [binary_tree_metric] is inhabited by construction and closed under growing and relabelling the
    tree: the 3-star with positive lengths is one; replacing any tip u by a cherry (u, new last tip)
    with positive pendant lengths a, b (u's old pendant edge becomes the internal edge) gives one;
    any relabelling of the tips gives one.  Every binary tree with positive branch lengths arises
    this way (root it at an internal node: start from the star of its three neighbours and expand
    placeholders top-down, then relabel) - that enumeration fact itself is not formalised. *)
Theorem star_is_binary_tree_metric : forall a b c, 0 < a -> 0 < b -> 0 < c -> binary_tree_metric 3 (star3_d a b c).
Proof. exact star3_is_binary_tree_metric. Qed.

Theorem grown_tree_is_binary_tree_metric : forall L u a b d, (2 <= L)%nat -> (u < L)%nat -> 0 < a -> 0 < b ->
  binary_tree_metric L d -> binary_tree_metric (S L) (expand_d L u a b d).
Proof. exact grow_binary_tree_metric. Qed.

Theorem relabelled_tree_is_binary_tree_metric : forall L (f g : nat -> nat),
  (forall k, (k < L)%nat -> (f k < L)%nat) -> (forall k, (k < L)%nat -> (g k < L)%nat) ->
  (forall k, (k < L)%nat -> g (f k) = k) -> (forall k, (k < L)%nat -> f (g k) = k) ->
  forall d, binary_tree_metric L d -> binary_tree_metric L (fun x y => d (f x) (f y)).
Proof. exact relabel_binary_tree_metric. Qed.

(** [tree_metric_gen n d] (Spec/SplitSpec.v): d is the path metric of a labelled binary tree with
    positive branch lengths, by construction (star, replace a tip by a cherry, relabel).  NJ is
    consistent on every one of them, for every n >= 3, with no hypothesis about the run. *)
Theorem generated_trees_are_binary_tree_metrics : forall n d, tree_metric_gen n d -> binary_tree_metric n d.
Proof. exact gen_is_binary_tree_metric. Qed.

Theorem nj_consistency_on_trees : forall n d, tree_metric_gen n d ->
  exists T, nj n d = Some T /\ pos_tree T /\
    Permutation (names T) (map Z.of_nat (seq 0 n)) /\
    (forall x y, (x < n)%nat -> (y < n)%nat -> x <> y ->
       exists q, (In (Z.of_nat x, Z.of_nat y, q) (tip_dists T) \/ In (Z.of_nat y, Z.of_nat x, q) (tip_dists T)) /\ q == d x y) /\
    (forall x y q, In (x, y, q) (tip_dists T) -> q == d (Z.to_nat x) (Z.to_nat y)).
Proof. exact nj_consistent_on_trees. Qed.

(** THE TREE-LEVEL STATEMENT.  [btree] (Spec/SplitSpec.v): leaf-labelled binary trees with branch
    lengths as a datatype (rooted on an edge; read unrooted); [bt_metric c x y] = sum of the lengths
    of the edges separating x and y = the path length.  For EVERY such tree with positive branch
    lengths whose tips are exactly 0..n-1 (any arrangement), its edges form a maximal compatible
    split system, so its metric is a [binary_tree_metric] ... *)
Theorem binary_tree_path_metric_is_tree_metric : forall n c, (2 <= n)%nat -> bpos c -> NoDup (tips c) ->
  (forall x, In x (tips c) <-> (x < n)%nat) -> binary_tree_metric n (bt_metric c).
Proof. exact btree_metric_is_binary_tree_metric. Qed.

(** ... and neighbour joining returns, for every n >= 3, a tree with positive branch lengths,
    exactly the tips 0..n-1, every pair of tips listed, and every listed tip-to-tip path length
    equal to the path length in the generating tree.  No hypothesis about the run. *)
Theorem nj_consistency_on_binary_trees : forall n c, (3 <= n)%nat -> bpos c -> NoDup (tips c) ->
  (forall x, In x (tips c) <-> (x < n)%nat) ->
  exists T, nj n (bt_metric c) = Some T /\ pos_tree T /\
    Permutation (names T) (map Z.of_nat (seq 0 n)) /\
    (forall x y, (x < n)%nat -> (y < n)%nat -> x <> y ->
       exists q, (In (Z.of_nat x, Z.of_nat y, q) (tip_dists T) \/ In (Z.of_nat y, Z.of_nat x, q) (tip_dists T)) /\ q == bt_metric c x y) /\
    (forall x y q, In (x, y, q) (tip_dists T) -> q == bt_metric c (Z.to_nat x) (Z.to_nat y)).
Proof. exact nj_consistent_on_btrees. Qed.

Theorem nj_consistency_nonvacuous : binary_tree_metric 4 ex_quartet.
Proof. exact ex_quartet_binary_tree_metric. Qed.

(** A join at a cherry keeps the partial tree a faithful representation of the original metric
    [orig] (distances inside every subtree, and depth + matrix entry + depth between subtrees). *)
Theorem nj_join_preserves_representation : forall orig t i j a b D la lb,
  state_ok orig t -> cherry_at (pt_L t) (pt_d t) i j a b D -> 0 < a -> 0 < b -> la == a -> lb == b ->
  state_ok orig (PT (pt_L t - 1) (join_matrix (pt_L t) (pt_d t) i j)
                    (join_nodes (pt_L t) (pt_nodes t) i j
                       (LNode [(la, nth i (pt_nodes t) dummy_tree); (lb, nth j (pt_nodes t) dummy_tree)]) dummy_tree)
                    (pt_score t + pt_d t i j)).
Proof. exact step_state_ok. Qed.

(** PARTIAL whole-algorithm theorem.  [good_run]: the pair the score criterion selects is a cherry
    with positive branches at every step of THIS run and the last three lengths are positive (what
    [stmt_nj_picks_a_cherry] would give for every tree metric; decidable by computation on an
    instance, see Example ex_quartet_good_run).  Then nj (model: keep = 1) returns a tree with
    positive branch lengths, exactly the input's tips, every pair of tips listed, and every listed
    tip-to-tip path length equal to the input distance. *)
Theorem nj_consistency_partial : forall n d,
  (3 <= n)%nat ->
  (forall k l, (k < n)%nat -> (l < n)%nat -> d k l == d l k) -> (forall k, (k < n)%nat -> d k k == 0) ->
  good_run (star_tree n d) ->
  exists T, nj n d = Some T /\ pos_tree T /\
    Permutation (names T) (map Z.of_nat (seq 0 n)) /\
    (forall x y, (x < n)%nat -> (y < n)%nat -> x <> y ->
       exists q, (In (Z.of_nat x, Z.of_nat y, q) (tip_dists T) \/ In (Z.of_nat y, Z.of_nat x, q) (tip_dists T)) /\ q == d x y) /\
    (forall x y q, In (x, y, q) (tip_dists T) -> q == d (Z.to_nat x) (Z.to_nat y)).
Proof. exact nj_good_run_complete. Qed.

(** the hypotheses are satisfiable: the quartet ((0:1,1:2):1,(2:3,3:1)) *)
Theorem nj_good_run_nonvacuous : good_run (star_tree 4 ex_quartet).
Proof. exact ex_quartet_good_run. Qed.

(** UNCONDITIONAL consistency for n = 4: for EVERY labelled quartet ((x,y),(z,w)) with positive
    branch lengths ax, ay, az, aw and internal edge e (given by its additive matrix, any tip order)
    the score criterion can only select one of the two cherries (in either orientation, whatever
    the tie order), so nj returns a tree with positive branch lengths in which every pair of tips is
    listed at exactly the input distance. *)
Theorem nj_quartet_consistency : forall (d : qmat) (x y z w : nat) (ax ay az aw e : Q),
  (x < 4)%nat -> (y < 4)%nat -> (z < 4)%nat -> (w < 4)%nat ->
  x <> y -> x <> z -> x <> w -> y <> z -> y <> w -> z <> w ->
  0 < ax -> 0 < ay -> 0 < az -> 0 < aw -> 0 < e ->
  (forall k l, (k < 4)%nat -> (l < 4)%nat -> d k l == d l k) ->
  (forall k, (k < 4)%nat -> d k k == 0) ->
  d x y == ax + ay -> d z w == az + aw ->
  d x z == ax + e + az -> d x w == ax + e + aw -> d y z == ay + e + az -> d y w == ay + e + aw ->
  exists T, nj 4 d = Some T /\ pos_tree T /\
    (forall a b, (a < 4)%nat -> (b < 4)%nat -> a <> b ->
       exists q, (In (Z.of_nat a, Z.of_nat b, q) (tip_dists T) \/ In (Z.of_nat b, Z.of_nat a, q) (tip_dists T)) /\ q == d a b) /\
    (forall a b q, In (a, b, q) (tip_dists T) -> q == d (Z.to_nat a) (Z.to_nat b)).
Proof. exact nj_quartet_exact. Qed.

Theorem nj_quartet_consistency_nonvacuous :
  exists T, nj 4 ex_quartet = Some T /\ pos_tree T /\
    (forall a b q, In (a, b, q) (tip_dists T) -> q == ex_quartet (Z.to_nat a) (Z.to_nat b)).
Proof. exact ex_quartet_is_quartet. Qed.

(** ------------------------------------------------------------------ UPGMA *)

(** on an ultrametric matrix the rows of a minimal pair agree on every other index (three-point condition) *)
Theorem upgma_rows_equal_at_minimum : forall (m : qmat) i j k,
  m i j <= m i k -> m i j <= m j k ->
  m i k <= Qmax (m i j) (m j k) -> m j k <= Qmax (m i j) (m i k) ->
  m i k == m j k.
Proof. exact ultrametric_rows_equal. Qed.

(** hence condense_matrix's plain average of the two rows (no weighting by cluster size) is exact:
    every kept entry of the reduced matrix is the old entry ... *)
Theorem upgma_condense_exact : forall (m : qmat) i j large k l,
  i <> j ->
  (forall x y, m x y == m y x) ->
  (forall x, x <> i -> x <> j -> m i x == m j x) ->
  k <> j -> l <> j -> ~ (k = i /\ l = i) ->
  condense_matrix m (i, j) large k l == m k l.
Proof. exact condense_matrix_kept. Qed.

(** ... and the merged index j is masked with the large value *)
Theorem upgma_condense_masks : forall (m : qmat) i j large k l,
  k = j \/ l = j -> condense_matrix m (i, j) large k l = large.
Proof. exact condense_matrix_masked. Qed.

(** heights: merging two correctly dated subtrees at height d (= m[i,j]/2) gives a correctly dated
    subtree of height d — every tip below the new node is at depth exactly d, through the
    length = d - children[0].TipLength bookkeeping *)
Theorem upgma_heights_exact : forall n1 n2 h1 h2 d,
  height_ok n1 h1 -> height_ok n2 h2 ->
  height_ok (UN None None None [set_lengths n1 d; set_lengths n2 d]) d.
Proof. exact merged_height_ok. Qed.

(** ... and every tip of one merged subtree is at tree distance 2d = m[i,j] from every tip of the other *)
Theorem upgma_merged_distance_exact : forall n1 n2 h1 h2 d,
  height_ok n1 h1 -> height_ok n2 h2 ->
  Forall (fun t => snd t == d + d)
         (cross (child_depths (set_lengths n1 d)) (child_depths (set_lengths n2 d))).
Proof. exact merged_cross_distance. Qed.

(** Whole-algorithm theorem for UPGMA (model of upgma(): inputs_from_dict_array + UPGMA_cluster):
    for every symmetric, zero-diagonal ultrametric matrix (three-point condition) with entries in
    [0, B] and B * 2^n < large (large = BIG_NUM = 1e305 in the source: the masking value must
    dominate the data even after the n-1 halvings the diagonal undergoes), upgma returns a tree
    that has all its tips at one depth, lists every pair of input tips, and in which every listed
    tip-to-tip path length equals the input distance.  No hypothesis about which pair argmin selects: that
    the first minimum over the whole masked matrix is a minimal live off-diagonal pair, and that
    the rows of such a pair agree, is proved. *)
Theorem upgma_consistency : forall n large B (d : qmat),
  (1 <= n)%nat -> 0 <= B -> B * pow2 n < large ->
  (forall k l, (k < n)%nat -> (l < n)%nat -> d k l == d l k) ->
  (forall k, (k < n)%nat -> d k k == 0) ->
  (forall k l, (k < n)%nat -> (l < n)%nat -> k <> l -> 0 <= d k l /\ d k l <= B) ->
  (forall k l x, (k < n)%nat -> (l < n)%nat -> (x < n)%nat -> k <> l -> k <> x -> l <> x -> d k l <= Qmax (d k x) (d x l)) ->
  exists T, upgma n large d = Some T /\
    (exists h, height_ok T h) /\
    (forall x y, (x < n)%nat -> (y < n)%nat -> x <> y ->
       exists q, (In (Z.of_nat x, Z.of_nat y, q) (u_tip_dists T) \/ In (Z.of_nat y, Z.of_nat x, q) (u_tip_dists T)) /\ q == d x y) /\
    (forall x y q, In (x, y, q) (u_tip_dists T) -> q == d (Z.to_nat x) (Z.to_nat y)).
Proof. exact upgma_exact_complete. Qed.

(** the hypotheses are satisfiable (three tips, BIG_NUM replaced by 1000) *)
Theorem upgma_consistency_nonvacuous :
  exists T, upgma 3 1000 ex_ultra = Some T /\ udists_ok (fun x y => ex_ultra (Z.to_nat x) (Z.to_nat y)) T.
Proof. exact ex_ultra_upgma. Qed.
