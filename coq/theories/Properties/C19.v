(** C19 — File writes are all-or-nothing; interrupted runs resume to the same result.
    Only theorem statements; every proof is [exact <lemma>]. *)
From CG3 Require Import Lib.PyZ Model.AtomicWrite Proofs.AtomicWriteProofs.

(** killed before ANY operation of a write (any prefix), the destination holds
    its previous content (or absence) or exactly the new content *)
Theorem atomic_at_every_prefix : forall old chunks k,
  let s := run_prefix k (prog_ok commit_replace chunks) (init old) in
  dest s = old \/ dest s = Some (concat chunks).
Proof. exact atomic_prefix_replace. Qed.

(** a completed write leaves exactly the new content and nothing temporary *)
Theorem completed_write_is_new : forall old chunks,
  run (prog_ok commit_replace chunks) (init old)
  = {| dest := Some (concat chunks); tmpdir := false; tmpfile := None |}.
Proof. exact complete_replace. Qed.

(** formatting fails after any number of chunks: the file system is exactly as before *)
Theorem failed_format_restores_everything : forall old chunks j,
  run (prog_fail [] chunks j) (init old) = init old.
Proof. exact fail_clean. Qed.

(** ... and a process dying anywhere inside such a failing write leaves dest untouched *)
Theorem failed_format_every_prefix_keeps_old : forall old chunks j k,
  dest (run_prefix k (prog_fail [] chunks j) (init old)) = old.
Proof. exact fail_every_prefix_keeps_old. Qed.

(** an OSError raised by ANY operation leaves dest in {old, new} ... *)
Theorem fault_at_every_op_dest_safe : forall old chunks k,
  let s := run_fault k (prog_ok commit_replace chunks) (init old) in
  dest s = old \/ dest s = Some (concat chunks).
Proof. exact fault_dest_safe. Qed.

(** ... and no temporary file or directory behind *)
Theorem fault_at_every_op_no_temp : forall old chunks k o,
  nth_error (prog_ok commit_replace chunks) k = Some o ->
  no_tmp (run_fault k (prog_ok commit_replace chunks) (init old)) = true.
Proof. exact fault_clean. Qed.

(** the commit sequence the code used before the repair (unlink, then rename)
    violates the prefix property: a regression to it has a formal witness *)
Theorem unlink_then_rename_refuted :
  exists old chunks k,
    let s := run_prefix k (prog_ok commit_unlink_rename chunks) (init old) in
    dest s <> old /\ dest s <> Some (concat chunks).
Proof. exact unlink_rename_not_atomic. Qed.

(** the former except-branch of save_to_filename destroyed the previous file *)
Theorem unlink_on_format_error_refuted :
  exists old chunks j, old <> None /\
    dest (run (prog_fail [UnlinkDestOnError] chunks j) (init old)) = None.
Proof. exact fail_with_unlink_destroys. Qed.

(** resume: interrupted after ANY number of processed records, re-running
    apply_to on the same output store ends in the store of the uninterrupted run *)
Theorem resume_equals_uninterrupted : forall f k inputs st,
  apply_to f inputs (interrupted f k inputs st) = apply_to f inputs st.
Proof. exact resume_same. Qed.

(** ... processing only what is missing *)
Theorem resume_processes_only_missing : forall f k inputs st,
  processed inputs (interrupted f k inputs st)
  = filter (fun i => negb (has (interrupted f k inputs st) i)) (skipn k (processed inputs st)).
Proof. exact resume_processes_missing. Qed.

(** ... and never touching a record that was already there *)
Theorem rerun_never_rewrites : forall f inputs st, exists added, apply_to f inputs st = st ++ added.
Proof. exact apply_to_extends. Qed.

(** ---- exception classes: the handler set is a parameter (read from the source by the driver) ---- *)

(** an exception of ANY class raised by ANY operation, whatever the except-clauses name,
    leaves dest in {old, new} *)
Theorem fault_any_class_dest_safe : forall H e old chunks k,
  let s := run_fault_cls H e k (prog_ok commit_replace chunks) (init old) in
  dest s = old \/ dest s = Some (concat chunks).
Proof. exact fault_cls_dest_safe. Qed.

(** if both cleanup clauses (in _get_fileobj and in __exit__) catch the class of the
    exception, nothing temporary remains, wherever it was raised *)
Theorem caught_failure_no_temp : forall H e old chunks k o,
  catches (h_enter H) e = true -> catches (h_exit H) e = true ->
  nth_error (prog_ok commit_replace chunks) k = Some o ->
  no_tmp (run_fault_cls H e k (prog_ok commit_replace chunks) (init old)) = true.
Proof. exact fault_cls_clean. Qed.

(** hence: clauses covering every Exception class clean up after every handled failure
    (OSError, ValueError, AttributeError, any other Exception) *)
Theorem handled_failure_no_temp_any_class : forall H e old chunks k o,
  covers_handled H = true -> In e handled_classes ->
  nth_error (prog_ok commit_replace chunks) k = Some o ->
  no_tmp (run_fault_cls H e k (prog_ok commit_replace chunks) (init old)) = true.
Proof. exact fault_handled_clean. Qed.

(** `except Exception` in both places (the present source) satisfies the premise *)
Theorem except_exception_covers : covers_handled handlers_exception = true.
Proof. exact handlers_exception_cover. Qed.

(** clauses narrowed to OSError do not: a ValueError from opening the temporary file
    leaves the temporary directory behind (formal counterpart of that regression) *)
Theorem oserror_only_handlers_refuted :
  exists e old chunks k,
    In e handled_classes /\
    no_tmp (run_fault_cls {| h_enter := [BOSError]; h_exit := [BOSError] |} e k
              (prog_ok commit_replace chunks) (init old)) = false.
Proof. exact oserror_only_leaks. Qed.

(** ---- zip targets ---- *)

(** `.zip` destination (temporary archive, then one replace): killed before ANY operation
    the destination is the previous archive (or absent) or holds exactly the new member *)
Theorem zip_atomic_at_every_prefix : forall old chunks k,
  let s := zrun (firstn k (zprog_staged chunks)) (zinit old) in
  zdest s = old \/ zdest s = Some (Members [concat chunks]).
Proof. exact zip_staged_prefix. Qed.

(** ... and a completed write leaves exactly one member, the new content, nothing temporary *)
Theorem zip_completed_write_is_new : forall old chunks,
  zrun (zprog_staged chunks) (zinit old)
  = {| zdest := Some (Members [concat chunks]); zouter := false; zstaged := None; zinner := false; zfile := None |}.
Proof. exact zip_staged_complete. Qed.

(** an archive appended to IN PLACE (explicit in_zip today; a `.zip` destination if the
    temporary archive is ever bypassed) is not all-or-nothing: finding C19-5 *)
Theorem zip_append_in_place_refuted :
  exists chunks k,
    let s := zrun (firstn k (zprog_append false chunks)) (zinit None) in
    zdest s <> None /\ zdest s <> Some (Members [concat chunks]).
Proof. exact zip_append_not_atomic. Qed.

(** ... and over an existing single-member archive it does not leave exactly the new content *)
Theorem zip_append_over_existing_refuted :
  exists o chunks,
    zdest (zrun (zprog_append true chunks) (zinit (Some (Members [o])))) = Some (Members [o; concat chunks])
    /\ Some (Members [o; concat chunks]) <> Some (Members [concat chunks]).
Proof. exact zip_append_keeps_old_member. Qed.

(** ---- resume with failing (not-completed) inputs ---- *)

(** interrupted after ANY number of inputs, with ANY of them ending not-completed,
    re-running apply_to on the same store ends in the store of the uninterrupted run *)
Theorem resume_with_failures_equals_uninterrupted : forall g k inputs st,
  apply_nc g inputs (interrupted_nc g k inputs st) = apply_nc g inputs st.
Proof. exact resume_nc_same. Qed.

(** inputs with a completed record are not processed again ... *)
Theorem resume_never_reprocesses_completed : forall g k inputs st i,
  In i (processed_nc inputs (interrupted_nc g k inputs st)) ->
  has_c (interrupted_nc g k inputs st) i = false.
Proof. exact resume_nc_skips_completed. Qed.

(** ... every other input is *)
Theorem resume_processes_every_other_input : forall g k inputs st i,
  In i inputs -> has_c (interrupted_nc g k inputs st) i = false ->
  In i (processed_nc inputs (interrupted_nc g k inputs st)).
Proof. exact resume_nc_processes_rest. Qed.

(** re-running the same inputs on a finished store changes nothing *)
Theorem rerun_is_idempotent : forall g inputs st,
  apply_nc g inputs (apply_nc g inputs st) = apply_nc g inputs st.
Proof. exact apply_nc_idem. Qed.
