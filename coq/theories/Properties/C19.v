(** C19 — File writes are all-or-nothing; interrupted runs resume to the same result.
    Only theorem statements; every proof is [exact <lemma>]. *)
From CG3 Require Import Lib.PyZ Model.AtomicWrite Proofs.AtomicWriteProofs.

(** killed before ANY operation of a write (any prefix), the destination holds
    its previous content (or absence) or exactly the new content *)
Theorem atomic_at_every_prefix : forall old chunks k,
  let s := run_prefix k (prog_ok commit_replace chunks) (init old) in
  dest s = old \/ dest s = Some (concat chunks).
Proof. exact atomic_prefix_replace. Qed.

(** a completed write leaves exactly the new content and nothing temporary *)
Theorem completed_write_is_new : forall old chunks,
  run (prog_ok commit_replace chunks) (init old)
  = {| dest := Some (concat chunks); tmpdir := false; tmpfile := None |}.
Proof. exact complete_replace. Qed.

(** formatting fails after any number of chunks: the file system is exactly as before *)
Theorem failed_format_restores_everything : forall old chunks j,
  run (prog_fail [] chunks j) (init old) = init old.
Proof. exact fail_clean. Qed.

(** ... and a process dying anywhere inside such a failing write leaves dest untouched *)
Theorem failed_format_every_prefix_keeps_old : forall old chunks j k,
  dest (run_prefix k (prog_fail [] chunks j) (init old)) = old.
Proof. exact fail_every_prefix_keeps_old. Qed.

(** an OSError raised by ANY operation leaves dest in {old, new} ... *)
Theorem fault_at_every_op_dest_safe : forall old chunks k,
  let s := run_fault k (prog_ok commit_replace chunks) (init old) in
  dest s = old \/ dest s = Some (concat chunks).
Proof. exact fault_dest_safe. Qed.

(** ... and no temporary file or directory behind *)
Theorem fault_at_every_op_no_temp : forall old chunks k o,
  nth_error (prog_ok commit_replace chunks) k = Some o ->
  no_tmp (run_fault k (prog_ok commit_replace chunks) (init old)) = true.
Proof. exact fault_clean. Qed.

(** the commit sequence the code used before the repair (unlink, then rename)
    violates the prefix property: a regression to it has a formal witness *)
Theorem unlink_then_rename_refuted :
  exists old chunks k,
    let s := run_prefix k (prog_ok commit_unlink_rename chunks) (init old) in
    dest s <> old /\ dest s <> Some (concat chunks).
Proof. exact unlink_rename_not_atomic. Qed.

(** the former except-branch of save_to_filename destroyed the previous file *)
Theorem unlink_on_format_error_refuted :
  exists old chunks j, old <> None /\
    dest (run (prog_fail [UnlinkDestOnError] chunks j) (init old)) = None.
Proof. exact fail_with_unlink_destroys. Qed.

(** resume: interrupted after ANY number of processed records, re-running
    apply_to on the same output store ends in the store of the uninterrupted run *)
Theorem resume_equals_uninterrupted : forall f k inputs st,
  apply_to f inputs (interrupted f k inputs st) = apply_to f inputs st.
Proof. exact resume_same. Qed.

(** ... processing only what is missing *)
Theorem resume_processes_only_missing : forall f k inputs st,
  processed inputs (interrupted f k inputs st)
  = filter (fun i => negb (has (interrupted f k inputs st) i)) (skipn k (processed inputs st)).
Proof. exact resume_processes_missing. Qed.

(** ... and never touching a record that was already there *)
Theorem rerun_never_rewrites : forall f inputs st, exists added, apply_to f inputs st = st ++ added.
Proof. exact apply_to_extends. Qed.
