(** C11 — Likelihood is invariant under relabelling, reordering and re-rooting.

    Same model as C02 ([Model/Lik.v]).  Every theorem holds for an arbitrary
    carrier [R] with operations [o] satisfying the commutative-semiring laws
    (a premise), every rose tree, every number of states.  Reversibility
    (pi_i P_ij = pi_j P_ji) and the Chapman-Kolmogorov edge split
    (P_e = P_a P_b) are premises on the matrices ([reversible], [is_product]);
    that the implementation's matrices satisfy them (up to rounding) is
    checked numerically by the correspondence stage and is a C05 obligation.
    The logarithm is an uninterpreted function [lg] into a commutative monoid
    [lm]; "multiplies lnL by k" is the k-fold sum [nscale lm k].

    Only statements and [exact] here; proofs in Proofs/LikCompress.v and
    Proofs/LikInvariance.v. *)
From Coq Require Import Permutation.
From CG3 Require Import Lib.PyZ Lib.Semiring Lib.LikTree Model.Lik Spec.SumProduct
  Proofs.LikProofs Proofs.LikCompress Proofs.LikInvariance.
Local Open Scope nat_scope.

(** alignment columns may be permuted *)
Theorem perm_columns :
  forall (R Lg : Type) (lm : cm_ops Lg), cm_laws lm ->
  forall (lg : R -> Lg) (lik : column -> R) (gapcol : column) (cols cols' : list column),
    Permutation cols cols' ->
    total_log_lik lm lg lik gapcol cols = total_log_lik lm lg lik gapcol cols'.
Proof. exact LikCompress.perm_columns. Qed.

(** repeating the whole alignment k times multiplies the log-likelihood by k *)
Theorem repeat_alignment :
  forall (R Lg : Type) (lm : cm_ops Lg), cm_laws lm ->
  forall (lg : R -> Lg) (lik : column -> R) (gapcol : column) (cols : list column) (k : nat),
    total_log_lik lm lg lik gapcol (concat (repeat cols k)) = nscale lm k (total_log_lik lm lg lik gapcol cols).
Proof. exact LikCompress.repeat_alignment. Qed.

(** repeating every column k times multiplies the log-likelihood by k *)
Theorem repeat_each_column :
  forall (R Lg : Type) (lm : cm_ops Lg), cm_laws lm ->
  forall (lg : R -> Lg) (lik : column -> R) (gapcol : column) (cols : list column) (k : nat),
    total_log_lik lm lg lik gapcol (flat_map (fun c => repeat c k) cols)
    = nscale lm k (total_log_lik lm lg lik gapcol cols).
Proof. exact LikCompress.repeat_each_column. Qed.

(** identical columns may be merged into one column with a multiplicity *)
Theorem merge_identical :
  forall (R Lg : Type) (lm : cm_ops Lg), cm_laws lm ->
  forall (lg : R -> Lg) (lik : column -> R) (gapcol : column) (wc : list (nat * column)),
    total_log_lik lm lg lik gapcol (flat_map (fun p => repeat (snd p) (fst p)) wc)
    = big_op lm (fun p => nscale lm (fst p) (lg (lik (snd p)))) wc.
Proof. exact LikCompress.merge_identical. Qed.

(** the children of any node(s), at any depth, may be reordered *)
Theorem perm_children :
  forall (R : Type) (o : sr_ops R), sr_laws o ->
  forall (n : nat) (t t' : tree (list R) (list (list R))) (pi : list R),
    wf n t -> reorder t t' -> col_lik o n t pi = col_lik o n t' pi.
Proof. exact LikInvariance.col_lik_reorder. Qed.

(** the order of the sequences (rows) in the alignment is irrelevant: data are
    bound to the tree by name *)
Theorem perm_sequences :
  forall (R : Type) (o : sr_ops R) (n : nat) (prof : motif -> list R) (psub : Z -> list (list R)) (pi : list R)
         (t : tree Z Z) (col col' : column),
    NoDup (map fst col) -> Permutation col col' ->
    lik_column o n prof psub pi t col = lik_column o n prof psub pi t col'.
Proof. exact LikInvariance.lik_column_perm_rows. Qed.

(** taxa / edges may be renamed, consistently in tree, matrices and alignment *)
Theorem relabel_taxa :
  forall (R : Type) (o : sr_ops R) (n : nat) (f : Z -> Z) (prof : motif -> list R) (psub psub' : Z -> list (list R))
         (pi : list R) (t : tree Z Z) (col : column),
    (forall a b, f a = f b -> a = b) -> (forall e, psub' (f e) = psub e) ->
    lik_column o n prof psub' pi (tmap f f t) (map (fun kv => (f (fst kv), snd kv)) col)
    = lik_column o n prof psub pi t col.
Proof. exact LikInvariance.lik_column_relabel. Qed.

(** pulley principle: for a reversible process the root may be moved across an edge ... *)
Theorem pulley :
  forall (R : Type) (o : sr_ops R), sr_laws o ->
  forall (n : nat) (t t' : tree (list R) (list (list R))) (pi : list R),
    length pi = n -> wf_rev o n pi t -> reroot_step t t' -> col_lik o n t pi = col_lik o n t' pi.
Proof. exact LikInvariance.col_lik_reroot_step. Qed.

(** ... and hence to any internal node (any path of such moves) *)
Theorem reroot_invariant :
  forall (R : Type) (o : sr_ops R), sr_laws o ->
  forall (n : nat) (p : list nat) (t t' : tree (list R) (list (list R))) (pi : list R),
    length pi = n -> wf_rev o n pi t -> reroot_path p t = Some t' -> col_lik o n t pi = col_lik o n t' pi.
Proof. exact LikInvariance.col_lik_reroot_path. Qed.

(** for a time-homogeneous process an edge may be split into two edges whose
    matrices multiply to the original one (anywhere in the tree); together with
    [reroot_invariant] this places the root anywhere on the tree *)
Theorem edge_split :
  forall (R : Type) (o : sr_ops R), sr_laws o ->
  forall (n : nat) (Pe Pa Pb : list (list R)) (t t' : tree (list R) (list (list R))) (pi : list R),
    wf n t -> wfmat n Pa -> wfmat n Pb -> is_product o n Pe Pa Pb -> split_edge Pe Pa Pb t t' ->
    col_lik o n t pi = col_lik o n t' pi.
Proof. exact LikInvariance.col_lik_split_edge. Qed.
