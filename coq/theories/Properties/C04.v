(** C04 - Annotations keep denoting the same residues through every view.
    Only theorem statements; every proof is [exact <lemma>]. *)
From CG3 Require Import Lib.PyZ Lib.Val Lib.PySlice Model.View Spec.ViewSpec Model.Annot Spec.AnnotSpec Proofs.AnnotProofs.

(** the 4-clause SQL test is interval overlap, the 1-clause test containment *)
Theorem db_partial_is_overlap : forall fs fe qs qe, fs < fe -> qs < qe ->
  (db_partial fs fe qs qe = true <-> overlaps fs fe qs qe).
Proof. exact db_partial_overlap. Qed.

Theorem db_within_is_inside : forall fs fe qs qe,
  db_within fs fe qs qe = true <-> inside fs fe qs qe.
Proof. exact db_within_inside. Qed.

(** pinned tree: a partial-match query raises for a well-formed feature that
    is only partly inside the view (finding C04-F1) *)
Theorem make_feature_raises_refuted :
  exists v f, WF v /\ Z.abs (step v) = 1 /\ feat_ok f /\
    get_features pinned v [f] None None true = Err E_Value.
Proof. exact make_feature_raises_refuted_lemma. Qed.
