(** C04 - Annotations keep denoting the same residues through every view.
    Only theorem statements; every proof is [exact <lemma>].

    Vocabulary.  Model/Annot.v (transcribed from Sequence.get_features /
    make_feature / add_feature / _mapped, Feature.get_slice, _spans_from_locations,
    FeatureMap.nucleic_reversed): [feat] = a db record (absolute plus-strand spans +
    strand), [get_features], [feature_on_view] (one db record -> the Feature
    bound to a view: [fv_minus] strand relative to the view, [fv_map] its map),
    [get_slice_str] / [get_slice] (the string of feature.get_slice()),
    [slice_coords] (parent coordinates of that slice), [add_feature];
    [fixes] selects the pinned code or the proposed repairs ([pinned], [all_fixed]).
    Model/View.v is the C01 view kernel ([view], [getitem_slice], [parent_start] ...).
    Spec/AnnotSpec.v: [denoted p off lo hi f] = the parent residues at the
    feature's absolute positions that lie in the displayed segment [lo, hi),
    read on the feature's strand; [overlaps] / [inside] = interval tests;
    [spans_ok] / [feat_ok] = sorted, disjoint, non-empty spans.
    Proofs/AnnotProofs.v: [contig v] = well-formed view with |step| = 1 and
    offset >= 0; [unit_op] = slice with step None/1 or rc; [abs_window],
    [box_matches], [abs_of_view], [view_spans]. *)
From CG3 Require Import Lib.PyZ Lib.Val Lib.PySlice Model.View Spec.ViewSpec Proofs.ViewSeqProofs.
From CG3 Require Import Model.Annot Model.AnnotRun Spec.AnnotSpec Proofs.AnnotProofs Proofs.AnnotCoordsProofs.

(** * the db side *)

(** the 4-clause SQL test is interval overlap, the 1-clause test containment *)
Theorem db_partial_is_overlap : forall fs fe qs qe, fs < fe -> qs < qe ->
  (db_partial fs fe qs qe = true <-> overlaps fs fe qs qe).
Proof. exact db_partial_overlap. Qed.

Theorem db_within_is_inside : forall fs fe qs qe,
  db_within fs fe qs qe = true <-> inside fs fe qs qe.
Proof. exact db_within_inside. Qed.

(** * coordinates *)

(** absolute -> view-relative conversion, flipped to the plus orientation on a
    reversed view ([relative_position] + [len(self) - spans]), is a plain shift
    by the absolute coordinate of the displayed segment's left end *)
Theorem relative_coordinate_is_shift : forall v x, contig v -> 0 < vlen v -> 0 <= x ->
  rel_coord v x = Ok (x - parent_start v).
Proof. exact rel_coord_contig. Qed.

(** a contiguous view displays exactly [parent_start, parent_stop) *)
Theorem displayed_segment_length : forall v, contig v -> vlen v = parent_stop v - parent_start v.
Proof. exact vlen_contig. Qed.

(** the query window [s, e) of displayed indices becomes the absolute segment
    holding exactly those residues (either orientation, any offset) *)
Theorem query_window_spec : forall v ws we, contig v -> 0 < vlen v ->
  let s := bound_or ws 0 in let e := bound_or we (vlen v) in
  0 <= s < e -> e <= vlen v ->
  query_window v ws we = Ok (abs_window v s e).
Proof. exact query_window_contig. Qed.

(** * HEADLINE 1: which features a query on a view returns *)

(** for every db, every contiguous view and every proper window: record [k] is
    returned iff its bounding box overlaps (allow_partial) / lies inside (not
    allow_partial) the absolute segment the window displays *)
Theorem query_membership_spec : forall fx v db ws we partial l, contig v -> 0 < vlen v ->
  let s := bound_or ws 0 in let e := bound_or we (vlen v) in
  0 <= s < e -> e <= vlen v -> Forall feat_ok db ->
  get_features fx v db ws we partial = Ok l ->
  forall k, In k (map fst l) <->
    exists f, 0 <= k /\ nth_error db (Z.to_nat k) = Some f /\ box_matches partial (abs_window v s e) f.
Proof. exact query_membership_lemma. Qed.

(** * HEADLINE 2: what the slice of a returned feature is *)

(** for every parent string, annotation offset, contiguous view (forward or
    reversed), every multi-span feature on either strand, pinned or repaired
    code: whenever get_features hands back the Feature, its strand relative to
    the view is the db strand xor the view's orientation, and
    str(feature.get_slice()) is exactly the parent residues the feature denotes,
    restricted to the segment the view displays, read on the feature's strand *)
Theorem feature_slice_spec : forall fx v p f fv,
  contig v -> 0 < vlen v -> zlen p = seq_len v -> spans_ok 0 (f_spans f) ->
  feature_on_view fx v f = Ok fv ->
  fv_minus fv = xorb (f_minus f) (is_reversed v) /\
  get_slice_str v p fv = Ok (denoted p (offset v) (parent_start v) (parent_stop v) f).
Proof. exact feature_slice_lemma. Qed.

(** restricting the position list by membership = intersecting every span with the segment *)
Theorem restricted_positions_spec : forall B n sp,
  map (fun x => x + B) (rpositions n (shift_spans B sp)) = filter (in_seg B (B + n)) (positions sp).
Proof. exact restricted_positions. Qed.

(** the same over histories: any chain of unit-step slices (any optional /
    negative / out-of-range bounds) and reverse complements of a sequence with
    any annotation offset ends in a view for which the statement holds *)
Theorem history_irrelevant : forall fx p off ops v0 v f fv,
  0 <= off -> mk_view (zlen p) None None None off = Ok v0 ->
  Forall unit_op ops -> fold_left apply_vop ops (Ok v0) = Ok v -> 0 < vlen v ->
  spans_ok 0 (f_spans f) -> feature_on_view fx v f = Ok fv ->
  fv_minus fv = xorb (f_minus f) (is_reversed v) /\
  get_slice_str v p fv = Ok (denoted p off (parent_start v) (parent_stop v) f).
Proof. exact history_irrelevant_lemma. Qed.

(** seq.copy() (the parent is cut down to the displayed segment, the view is
    re-based, the annotation offset becomes the old parent_start; [apply_op
    Fixed _ CopySliced] is the C01 model of it): the copy is again a contiguous
    view, reports the same absolute segment and orientation, and every feature
    denotes the same residues on it *)
Theorem copy_preserves : forall v p hid s', contig v -> 0 < vlen v -> zlen p = seq_len v ->
  apply_op Fixed (mkS v p KDna hid) CopySliced = Ok s' ->
  contig (sv s') /\ vlen (sv s') = vlen v /\ zlen (parent s') = seq_len (sv s') /\
  parent_start (sv s') = parent_start v /\ parent_stop (sv s') = parent_stop v /\
  is_reversed (sv s') = is_reversed v /\
  forall f, denoted (parent s') (offset (sv s')) (parent_start v) (parent_stop v) f
          = denoted p (offset v) (parent_start v) (parent_stop v) f.
Proof. exact copy_preserves_lemma. Qed.

(** HEADLINE 3: any history of unit-step slices, reverse complements and
    copies, of any depth, from a sequence with any annotation offset: a
    feature handed back on the final view has strand = db strand xor view
    orientation and its slice is the ORIGINAL parent's residues at the
    feature's absolute positions inside the segment the final view displays *)
Theorem history_with_copies : forall fx p0 off0 ops v0 v p f fv,
  0 <= off0 -> mk_view (zlen p0) None None None off0 = Ok v0 ->
  Forall unit_hop ops -> fold_left apply_hop ops (Ok (v0, p0)) = Ok (v, p) -> 0 < vlen v ->
  spans_ok 0 (f_spans f) -> feature_on_view fx v f = Ok fv ->
  fv_minus fv = xorb (f_minus f) (is_reversed v) /\
  get_slice_str v p fv = Ok (denoted p0 off0 (parent_start v) (parent_stop v) f).
Proof. exact history_with_copies_lemma. Qed.

(** old-style Feature.get_slice / seq[feature] is that plain reading; so is
    the new-style one once [_mapped] is repaired *)
Theorem get_slice_old : forall fx v p fv, get_slice fx OldSeq v p fv = get_slice_str v p fv.
Proof. exact get_slice_old_lemma. Qed.

Theorem get_slice_new_repaired : forall fx v p fv, fx_mapped fx = true ->
  get_slice fx NewSeq v p fv = get_slice_str v p fv.
Proof. exact get_slice_new_fixed_lemma. Qed.

(** * "never raise merely because a feature is only partly inside the view" *)

(** with the boundary repair ([>=] / [<=] in make_feature) no well-formed
    feature makes a query on a contiguous view raise ... *)
Theorem fixed_never_raises : forall fx v f, fx_bound fx = true -> contig v -> 0 < vlen v -> feat_ok f ->
  exists fv, feature_on_view fx v f = Ok fv.
Proof. exact fixed_never_raises_lemma. Qed.

(** more precisely, for either variant: no raise unless a span of the feature
    ends exactly at the absolute coordinate where the displayed segment starts ... *)
Theorem never_raises_unless_boundary : forall fx v f, contig v -> 0 < vlen v -> feat_ok f ->
  fx_bound fx = true \/ no_span_ends_at (parent_start v) (f_spans f) ->
  exists fv, feature_on_view fx v f = Ok fv.
Proof. exact never_raises_lemma. Qed.

(** ... and the pinned code raises (ValueError) exactly in that case: whenever
    the feature has a span [a, b) with b = parent_start of the view - e.g. any
    exon ending where a slice begins *)
Theorem pinned_raises_only_at_boundary : forall v f e, contig v -> 0 < vlen v -> feat_ok f ->
  feature_on_view pinned v f = Err e ->
  exists a b, In (a, b) (f_spans f) /\ b = parent_start v.
Proof. exact pinned_raises_only_at_boundary_lemma. Qed.

Theorem pinned_raises_at_boundary : forall v f a b, contig v -> 0 < vlen v -> feat_ok f ->
  In (a, b) (f_spans f) -> b = parent_start v ->
  feature_on_view pinned v f = Err E_Value.
Proof. exact pinned_raises_at_boundary_lemma. Qed.

(** the witness found by the design probe: CTAGAGT, rc()[4:5].rc(), feature [(0,2),(3,4),(6,7)],
    allow_partial=True raises ValueError (finding C04-F1) *)
Theorem make_feature_raises_refuted :
  exists v f, contig v /\ 0 < vlen v /\ feat_ok f /\
    get_features pinned v [f] None None true = Err E_Value.
Proof. exact make_feature_raises_refuted_lemma. Qed.

(** pinned new-style: feature.get_slice() of a one-span feature on a sequence
    with an annotation offset raises ValueError although the plain reading is
    the denoted residues (finding C04-F2) *)
Theorem new_slice_offset_refuted :
  exists v p f fv, contig v /\ 0 < vlen v /\ zlen p = seq_len v /\ feat_ok f /\
    feature_on_view pinned v f = Ok fv /\
    get_slice pinned NewSeq v p fv = Err E_Value /\
    get_slice_str v p fv = Ok (denoted p (offset v) (parent_start v) (parent_stop v) f).
Proof. exact new_slice_offset_refuted_lemma. Qed.

(** pinned: the slice of a feature lying inside the view reports parent
    coordinates that are not the feature's (old-style: relative to the view;
    new-style: view start counted twice); the repaired model reports the
    feature's own coordinates (finding C04-F3) *)
Theorem slice_coords_refuted :
  exists v p f fv, contig v /\ zlen p = seq_len v /\ f_spans f = [(4, 8)] /\ f_minus f = false /\
    parent_start v <= 4 /\ 8 <= parent_stop v /\
    feature_on_view pinned v f = Ok fv /\
    slice_coords pinned OldSeq v p fv = Ok (Some (2, 6, 1)) /\
    slice_coords pinned NewSeq v p fv = Ok (Some (6, 10, 1)) /\
    slice_coords all_fixed OldSeq v p fv = Ok (Some (4, 8, 1)) /\
    slice_coords all_fixed NewSeq v p fv = Ok (Some (4, 8, 1)).
Proof. exact slice_coords_refuted_lemma. Qed.

(** repaired [_mapped]: for every contiguous view, either orientation, either
    sequence class, a one-span feature lying inside the view: its slice
    (seq[feature], reverse complemented for a minus-strand feature) reports
    exactly the feature's own absolute coordinates and strand - so annotation
    queries on the slice see the right residues *)
Theorem slice_coords_repaired : forall fx i v p f fv a b, fx_mapped fx = true ->
  contig v -> 0 < vlen v -> zlen p = seq_len v ->
  f_spans f = [(a, b)] -> 0 <= a -> parent_start v <= a -> a < b -> b <= parent_stop v ->
  feature_on_view fx v f = Ok fv ->
  slice_coords fx i v p fv = Ok (Some (a, b, if f_minus f then -1 else 1)).
Proof. exact slice_coords_repaired_lemma. Qed.

(** the two view facts behind it: [v[a:b]] displays the absolute segment of the
    displayed indices a..b-1, and rc() keeps the segment and flips the strand *)
Theorem unit_slice_parent_coords : forall v a b v', contig v -> 0 <= a < b -> b <= vlen v ->
  getitem_slice FSeqView v (Some a) (Some b) None = Ok v' ->
  contig v' /\ vlen v' = b - a /\ is_reversed v' = is_reversed v /\
  parent_start v' = (if is_reversed v then parent_stop v - b else parent_start v + a) /\
  parent_stop v' = (if is_reversed v then parent_stop v - a else parent_start v + b).
Proof. exact unit_slice_coords. Qed.

Theorem rc_parent_coords : forall v, contig v -> 0 < vlen v ->
  exists w, getitem_slice FSeqView v None None (Some (-1)) = Ok w /\ contig w /\ vlen w = vlen v /\
    parent_start w = parent_start v /\ parent_stop w = parent_stop v /\ is_reversed w = negb (is_reversed v).
Proof. exact rc_contig. Qed.

(** * add_feature through a view *)

(** repaired add_feature: the record stored in the db carries the absolute
    plus-strand coordinates of the residues displayed at the given view
    coordinates (strand flipped on a reversed view), and the Feature handed
    back is built from exactly that record *)
Theorem add_feature_coords : forall fx v spans minus, fx_add fx = true -> contig v -> 0 < vlen v ->
  view_spans (vlen v) spans ->
  add_feature fx v spans minus =
    Ok (mkF (abs_of_view v spans) (xorb minus (is_reversed v)),
        shift_spans (parent_start v) (abs_of_view v spans), xorb minus (is_reversed v)).
Proof. exact add_feature_coords_lemma. Qed.

(** HEADLINE 4 (repaired add_feature, end to end): for every contiguous view
    (either orientation, any offset / history), sorted spans in view
    coordinates and either strand: the Feature handed back is the one a later
    query of the same view builds from the stored record, its strand relative
    to the view is the one given, and its slice is the parent's residues at the
    absolute coordinates of the displayed positions the spans point at *)
Theorem add_feature_end_to_end : forall fx v p spans minus rec msp mm fv,
  fx_add fx = true -> contig v -> 0 < vlen v -> zlen p = seq_len v ->
  spans_ok 0 spans -> view_spans (vlen v) spans ->
  add_feature fx v spans minus = Ok (rec, msp, mm) ->
  make_feature fx (vlen v) (is_reversed v) msp mm = Ok fv ->
  f_spans rec = abs_of_view v spans /\
  feature_on_view fx v rec = Ok fv /\
  fv_minus fv = minus /\
  get_slice_str v p fv = Ok (denoted p (offset v) (parent_start v) (parent_stop v) rec).
Proof. exact add_feature_end_to_end_lemma. Qed.

(** pinned add_feature stores the view coordinates unchanged: the record does
    not denote the residues pointed at, and a query on the very view the
    feature was added to does not return it (finding C04-F4) *)
Theorem add_feature_refuted :
  exists v spans minus rec sp m, contig v /\ 0 < vlen v /\ view_spans (vlen v) spans /\
    add_feature pinned v spans minus = Ok (rec, sp, m) /\
    f_spans rec <> abs_of_view v spans /\
    get_features pinned v [rec] None None true = Ok [].
Proof. exact add_feature_refuted_lemma. Qed.

(** * PHASE 3 (3) - strided views (|step| > 1, either orientation)

    [dabs v k] = absolute coordinate of the residue at plus-oriented index [k]
    of the view; [end_ok v x r] = [r] is the least plus-index whose residue lies
    at or after [x].  Proofs/AnnotStrideProofs.v. *)
From CG3 Require Import Proofs.AnnotStrideProofs.

(** the relative coordinate get_features computes for ANY absolute coordinate -
    on or off the stride grid - is the least plus-index at or after it: the
    code's ceiling division does not round wrongly (so no off-grid witness exists) *)
Theorem strided_relative_coordinate : forall v x, WF v -> 0 < vlen v -> 0 <= x ->
  exists r, rel_coord v x = Ok r /\ forall k, r <= k <-> x <= dabs v k.
Proof. exact rel_coord_stride. Qed.

(** the db is queried with [first displayed residue, first + len * |step|)
    (mirrored on a reversed view, clipped at 0) ... *)
Theorem strided_query_window : forall v, WF v -> 0 <= offset v -> 0 < vlen v ->
  query_window v None None =
    Ok (if is_reversed v then (Z.max (parent_stop v - vlen v * Z.abs (step v)) 0, parent_stop v)
        else (parent_start v, parent_start v + vlen v * step v)).
Proof. exact strided_window. Qed.

(** ... which extends past the reported parent segment by less than one stride;
    membership on a strided view is therefore bounding-box overlap with that
    slightly longer window (for |step| = 1 it is the displayed segment itself) *)
Theorem strided_window_overshoot_bound : forall v, WF v -> 0 < vlen v ->
  parent_stop v <= parent_start v + vlen v * Z.abs (step v) < parent_stop v + Z.abs (step v) /\
  parent_start v - Z.abs (step v) < parent_stop v - vlen v * Z.abs (step v) <= parent_start v.
Proof. exact strided_window_overshoot. Qed.

(** HEADLINE 8: on ANY well-formed view - any stride, either orientation, any
    offset - the Feature get_features builds reads exactly the displayed
    residues whose absolute coordinate lies inside a span of the feature, in
    plus order, on the feature's strand (span ends need not lie on the grid) *)
Theorem strided_feature_slice_spec : forall fx v p f fv,
  WF v -> 0 < vlen v -> zlen p = seq_len v -> spans_ok 0 (f_spans f) ->
  feature_on_view fx v f = Ok fv ->
  exists rs,
    (forall k, In k (rpositions (vlen v) rs) <->
       0 <= k < vlen v /\ exists ab, In ab (f_spans f) /\ fst ab <= dabs v k < snd ab) /\
    fv_minus fv = xorb (f_minus f) (is_reversed v) /\
    get_slice_str v p fv =
      Ok (let plus := flat_map (residue p (offset v)) (map (dabs v) (rpositions (vlen v) rs)) in
          if f_minus f then cmpl (rev plus) else plus).
Proof. exact strided_get_features_slice. Qed.

(** * PHASE 3 (3b) - query windows given with negative, swapped, zero or omitted bounds

    [win_lo n ws we] / [win_hi n ws we] = the two bounds after Python's
    [x or default], the wrap of negative values by [len] and the swap *)

(** bounds that land inside the view select the absolute segment of the displayed indices [lo, hi) *)
Theorem query_window_any_bounds : forall v ws we, contig v -> 0 < vlen v ->
  0 <= win_lo (vlen v) ws we < vlen v -> win_hi (vlen v) ws we <= vlen v ->
  query_window v ws we = Ok (abs_window v (win_lo (vlen v) ws we) (win_hi (vlen v) ws we)).
Proof. exact query_window_any. Qed.

(** bounds outside raise IndexError (including the empty window [start = len]) *)
Theorem query_window_index_error : forall v ws we, contig v -> 0 < vlen v ->
  win_lo (vlen v) ws we < 0 \/ vlen v <= win_lo (vlen v) ws we \/ vlen v < win_hi (vlen v) ws we ->
  query_window v ws we = Err E_Index.
Proof. exact query_window_raises. Qed.

(** membership for every non-empty window however it is written *)
Theorem query_membership_any_window : forall fx v db ws we partial l, contig v -> 0 < vlen v ->
  let lo := win_lo (vlen v) ws we in let hi := win_hi (vlen v) ws we in
  0 <= lo < hi -> hi <= vlen v -> Forall feat_ok db ->
  get_features fx v db ws we partial = Ok l ->
  forall k, In k (map fst l) <->
    exists f, 0 <= k /\ nth_error db (Z.to_nat k) = Some f /\ box_matches partial (abs_window v lo hi) f.
Proof. exact query_membership_any. Qed.

(** * PHASE 2 - features of a sequence seen through an alignment

    Model/AnnotAln.v transcribes [Alignment._get_seq_features] ([aln_feature]),
    [Aligned.make_feature] ([aligned_make_feature]: the sequence-level Feature of
    phase 1 re-mapped through the inverse of the row's indel map),
    [get_projected_feature] ([projected_map]) and the alignment-level
    [Feature.get_slice] on top of the C08 models of IndelMap / FeatureMap and the
    C03 row model ([arow] = indel map x sequence view).  Vocabulary from C08:
    [abs m] = the row's gap mask, [den fm] = what each cell of a FeatureMap reads
    ([None] = lost), [compose], [inverse_den], [is_align_index k q a] = column [a]
    of mask [k] holds residue number [q]; from C03: [RowWF], [row_str] = the row's
    gapped string.  [number 0 k] numbers the residues of a mask; [cell_column]
    relates one cell of the alignment-level map to one cell of the sequence-level
    map; [ROK n] = C03 row invariant + DNA + [n] columns + the phase-1 view
    invariant; [hist_ok] = slices [a:b] inside the current columns, and rc. *)
From CG3 Require Import Model.IndelMap Model.FeatureMap Model.Aligned Model.AnnotAln Model.AnnotAlnRun.
From CG3 Require Import Spec.IndelMapSpec Spec.FeatureMapSpec Spec.AlignedSpec Proofs.AnnotAlnProofs.

(** the row's indel map read as a FeatureMap ([to_feature_map]): column -> sequence position *)
Theorem row_map_reads_mask : forall m : imap, IndelMapSpec.WF m -> den (to_feature_map m) = number 0 (abs m).
Proof. exact den_tfm. Qed.

(** its inverse sends residue [q] to the C08 alignment index of [q] *)
Theorem residue_column : forall (m : imap) (q : Z), IndelMapSpec.WF m -> 0 <= q < parent_length m ->
  exists a, znth None (inverse_den (parent_length m) (den (to_feature_map m))) q = Some a /\
    is_align_index (abs m) q a /\ znth None (den (to_feature_map m)) a = Some q.
Proof. exact column_of_residue. Qed.

(** [Aligned.make_feature] succeeds whenever the sequence-level [make_feature]
    does; the map it returns is the composition with the inverse row map *)
Theorem aligned_feature_map_spec : forall fx r spans minus fv,
  IndelMapSpec.WF (amap r) -> parent_length (amap r) = vlen (sv (adata r)) -> 0 < vlen (sv (adata r)) ->
  proper spans ->
  Annot.make_feature fx (vlen (sv (adata r))) (is_reversed (sv (adata r))) spans minus = View.Ok fv ->
  exists am, aligned_make_feature fx r spans minus = Ok (fv_minus fv, am) /\
    den am = compose (inverse_den (parent_length (amap r)) (den (to_feature_map (amap r))))
                     (den (fmap_of (vlen (sv (adata r))) (fv_map fv))) /\
    fplen am = zlen (abs (amap r)) /\ in_parent am = true.
Proof. exact aligned_feature_den. Qed.

(** HEADLINE 5 (columns): cell by cell, the alignment-level feature is lost
    exactly where the sequence-level feature is, and otherwise reads the
    alignment column holding the residue the sequence-level feature reads.
    Hence the columns it denotes are exactly the columns whose residue in that
    row is a residue the feature denotes; gap columns of the row inside the
    feature's span are NOT part of the map (as [Span.remap_with] over the
    inverted map produces one span per ungapped block) - every gap layout *)
Theorem aln_feature_columns_spec : forall fx r spans minus fv,
  IndelMapSpec.WF (amap r) -> parent_length (amap r) = vlen (sv (adata r)) -> 0 < vlen (sv (adata r)) ->
  proper spans ->
  Annot.make_feature fx (vlen (sv (adata r))) (is_reversed (sv (adata r))) spans minus = View.Ok fv ->
  exists am, aligned_make_feature fx r spans minus = Ok (fv_minus fv, am) /\
    Forall2 (cell_column (abs (amap r))) (den am) (den (fmap_of (vlen (sv (adata r))) (fv_map fv))).
Proof. exact aln_feature_columns. Qed.

(** [get_projected_feature] onto a row [t]: cell [j] reads [t]'s sequence
    position at the column cell [j] of the alignment feature reads, [None]
    where the feature is lost or [t] has a gap there *)
Theorem projected_feature_spec : forall t am, IndelMapSpec.WF (amap t) -> 0 < parent_length (amap t) ->
  in_parent am = true -> fplen am = zlen (abs (amap t)) ->
  exists pm, projected_map t am = Ok pm /\
    den pm = compose (number 0 (abs (amap t))) (den am) /\ fplen pm = parent_length (amap t) /\ in_parent pm = true.
Proof. exact projected_den. Qed.

(** projected back onto its own row the alignment feature reads exactly the
    positions of the sequence-level feature (whose slice is given by feature_slice_spec) *)
Theorem own_row_projection : forall fx r spans minus fv,
  IndelMapSpec.WF (amap r) -> parent_length (amap r) = vlen (sv (adata r)) -> 0 < vlen (sv (adata r)) ->
  proper spans ->
  Annot.make_feature fx (vlen (sv (adata r))) (is_reversed (sv (adata r))) spans minus = View.Ok fv ->
  exists am pm, aligned_make_feature fx r spans minus = Ok (fv_minus fv, am) /\
    projected_map r am = Ok pm /\
    den pm = den (fmap_of (vlen (sv (adata r))) (fv_map fv)).
Proof. exact own_row_roundtrip. Qed.

(** string level: the characters of any mask-filled row at the columns of the
    alignment-level cells are the residues at the positions of the sequence-level cells ... *)
Theorem columns_hold_the_residues : forall k D dam dsub, residues k = zlen D ->
  Forall2 (cell_column k) dam dsub ->
  gather (fill k D) (somes dam) = gather D (somes dsub).
Proof. exact columns_hold_residues. Qed.

(** ... so the feature's slice of the sequence view is, up to the strand flip,
    the row's gapped string read at the columns of the alignment-level feature:
    degapping that restriction of the alignment to the row gives the sequence slice *)
Theorem feature_columns_are_its_residues : forall fx r spans minus fv am,
  RowWF r -> skind (adata r) = KDna -> contig (sv (adata r)) ->
  zlen (parent (adata r)) = seq_len (sv (adata r)) -> proper spans ->
  Annot.make_feature fx (vlen (sv (adata r))) (is_reversed (sv (adata r))) spans minus = View.Ok fv ->
  Forall2 (cell_column (abs (amap r))) (den am) (den (fmap_of (vlen (sv (adata r))) (fv_map fv))) ->
  get_slice_str (sv (adata r)) (parent (adata r)) fv =
    View.Ok (let s := gather (row_str r) (somes (den am)) in if fv_minus fv then cmpl (rev s) else s).
Proof. exact feature_columns_string. Qed.

(** HEADLINE 6: [Alignment.get_features(seqid=row)] for one db record: returned
    iff the bounding box overlaps / lies inside the absolute segment the row
    displays; the map is the column image of the phase-1 Feature [fv] *)
Theorem aln_get_features_spec : forall fx r f partial fv,
  IndelMapSpec.WF (amap r) -> contig (sv (adata r)) ->
  parent_length (amap r) = vlen (sv (adata r)) -> 0 < vlen (sv (adata r)) ->
  spans_ok 0 (f_spans f) ->
  feature_on_view fx (sv (adata r)) f = View.Ok fv ->
  let v := sv (adata r) in
  if db_match partial (parent_start v) (parent_stop v) f then
    exists am pm, aln_feature fx r f partial = Ok (Some (fv_minus fv, am)) /\
      Forall2 (cell_column (abs (amap r))) (den am) (den (fmap_of (vlen v) (fv_map fv))) /\
      projected_map r am = Ok pm /\ den pm = den (fmap_of (vlen v) (fv_map fv))
  else aln_feature fx r f partial = Ok None.
Proof. exact aln_feature_spec. Qed.

(** the alignment-level query never raises unless a span ends exactly at the
    start of the segment the row displays (and never with the boundary repair);
    a row without residues returns nothing (repair C04-4) *)
Theorem aln_never_raises : forall fx r f partial,
  IndelMapSpec.WF (amap r) -> contig (sv (adata r)) ->
  parent_length (amap r) = vlen (sv (adata r)) -> feat_ok f ->
  fx_bound fx = true \/ no_span_ends_at (parent_start (sv (adata r))) (f_spans f) ->
  exists o, aln_feature fx r f partial = Ok o.
Proof. exact aln_never_raises_lemma. Qed.

(** the hypotheses hold for every row of every alignment view: rows built from
    gapped strings of equal length, any history of slices and reverse complements *)
Theorem alignment_rows_invariant : forall ops n rows rows', Forall (ROK n) rows -> hist_ok n ops ->
  fold_left apply_alop ops (Ok rows) = Ok rows' -> Forall (ROK (hist_len n ops)) rows'.
Proof. exact alignment_history_rows. Qed.

Theorem alignment_rows_init : forall strs n rows, Forall (fun s => zlen s = n) strs ->
  mapM (row_of_string KDna) strs = Ok rows -> Forall (ROK n) rows.
Proof. exact alignment_init_rows. Qed.

Theorem row_hypotheses : forall n r, ROK n r -> 0 < vlen (sv (adata r)) ->
  IndelMapSpec.WF (amap r) /\ contig (sv (adata r)) /\ parent_length (amap r) = vlen (sv (adata r)) /\
  zlen (parent (adata r)) = seq_len (sv (adata r)) /\ offset (sv (adata r)) = 0.
Proof. exact ROK_hyps. Qed.

(** HEADLINE 7: all of it together - every gap layout, every history of
    alignment slices and reverse complements, every row still displaying
    residues, every sorted multi-span feature on either strand of that row's
    sequence: strand, slice of the sequence feature (original residues
    restricted to the displayed segment), membership, columns, own-row projection *)
Theorem alignment_view_features : forall fx strs n ops rows r f partial fv,
  Forall (fun s => zlen s = n) strs -> hist_ok n ops ->
  fold_left apply_alop ops (mapM (row_of_string KDna) strs) = Ok rows ->
  In r rows -> 0 < vlen (sv (adata r)) -> spans_ok 0 (f_spans f) ->
  feature_on_view fx (sv (adata r)) f = View.Ok fv ->
  let v := sv (adata r) in
  fv_minus fv = xorb (f_minus f) (is_reversed v) /\
  get_slice_str v (parent (adata r)) fv = View.Ok (denoted (parent (adata r)) 0 (parent_start v) (parent_stop v) f) /\
  if db_match partial (parent_start v) (parent_stop v) f then
    exists am pm, aln_feature fx r f partial = Ok (Some (fv_minus fv, am)) /\
      Forall2 (cell_column (abs (amap r))) (den am) (den (fmap_of (vlen v) (fv_map fv))) /\
      projected_map r am = Ok pm /\ den pm = den (fmap_of (vlen v) (fv_map fv))
  else aln_feature fx r f partial = Ok None.
Proof. exact alignment_view_features_lemma. Qed.

(** * PHASE 3 (1) - copies keep what every feature denotes

    [seq_step] = slice / rc / copy(sliced=True|False) / copy.deepcopy of a
    Sequence (also: of a member of a SequenceCollection, whose deepcopy / copy
    copy each member); [alhop] = slice / rc / deepcopy(sliced) / copy() of an
    Alignment; [RH p0 n r] = row invariant relative to the original degapped row. *)

Theorem copies_preserve_features_seq : forall fx p0 off0 steps v0 v p f fv,
  0 <= off0 -> mk_view (zlen p0) None None None off0 = View.Ok v0 ->
  fold_left apply_hop (map seq_step_hop steps) (View.Ok (v0, p0)) = View.Ok (v, p) -> 0 < vlen v ->
  spans_ok 0 (f_spans f) -> feature_on_view fx v f = View.Ok fv ->
  fv_minus fv = xorb (f_minus f) (is_reversed v) /\
  get_slice_str v p fv = View.Ok (denoted p0 off0 (parent_start v) (parent_stop v) f).
Proof. exact copies_preserve_features_seq_lemma. Qed.

(** rows of an alignment through any history of slices, rc and copies *)
Theorem alignment_copy_rows_invariant : forall ops n (p0s : list (list Z)) rows rows',
  Forall2 (fun p0 r => RH p0 n r) p0s rows -> hhist_ok n ops ->
  fold_left apply_alhop ops (Ok rows) = Ok rows' ->
  Forall2 (fun p0 r => RH p0 (hhist_len n ops) r) p0s rows'.
Proof. exact alignment_copy_history. Qed.

(** HEADLINE 9: every history of alignment slices, reverse complements,
    deepcopy(sliced=True|False) and copy(): on every row still displaying
    residues every feature is returned under the same condition, reads the same
    columns, and its sequence-level slice is the ORIGINAL row's residues
    restricted to the displayed segment (the sliced deepcopy re-bases the row's
    sequence; the annotation offset it hands on keeps the coordinates absolute) *)
Theorem copies_preserve_features_aln : forall fx strs n ops rows i s r f partial fv,
  Forall (fun s => zlen s = n) strs -> hhist_ok n ops ->
  fold_left apply_alhop ops (mapM (row_of_string KDna) strs) = Ok rows ->
  nth_error strs i = Some s -> nth_error rows i = Some r ->
  0 < vlen (sv (adata r)) -> spans_ok 0 (f_spans f) ->
  feature_on_view fx (sv (adata r)) f = View.Ok fv ->
  let v := sv (adata r) in
  fv_minus fv = xorb (f_minus f) (is_reversed v) /\
  get_slice_str v (parent (adata r)) fv = View.Ok (denoted (strip s) 0 (parent_start v) (parent_stop v) f) /\
  if db_match partial (parent_start v) (parent_stop v) f then
    exists am pm, aln_feature fx r f partial = Ok (Some (fv_minus fv, am)) /\
      Forall2 (cell_column (abs (amap r))) (den am) (den (fmap_of (vlen v) (fv_map fv))) /\
      projected_map r am = Ok pm /\ den pm = den (fmap_of (vlen v) (fv_map fv))
  else aln_feature fx r f partial = Ok None.
Proof. exact copies_preserve_features_aln_lemma. Qed.

(** * PHASE 3 (2) - the spans Feature.get_slice() reads on the alignment

    the alignment-level map has forward spans only, so its coordinate ranges,
    read in order, enumerate exactly the Some-cells of the map in order: every
    span is a run of consecutive columns of the cell-level denotation and
    nothing else is read.  Runs that touch are not merged (abutting feature
    spans stay two spans), so "maximal runs" holds only up to such touching. *)
Theorem aln_map_spans_are_cell_runs : forall fx r spans minus fv am,
  IndelMapSpec.WF (amap r) ->
  Annot.make_feature fx (vlen (sv (adata r))) (is_reversed (sv (adata r))) spans minus = View.Ok fv ->
  aligned_make_feature fx r spans minus = Ok (fv_minus fv, am) ->
  forallb fwd (fspans am) = true /\
  flat_map (fun se => zrange (fst se) (snd se)) (fm_get_coordinates (fm_without_gaps am)) = somes (den am).
Proof. exact aln_map_spans_read_cells. Qed.

(** the per-row strings of [feature.get_slice()] on the alignment (C03's
    statement for Aligned[FeatureMap] applied to the map's coordinate ranges):
    every row is its gapped string read at the columns the map denotes, reverse
    complemented for a reversed feature.  Hypothesis [segs_ok]: the coordinate
    ranges are non-empty, ascending and inside the alignment - monitored by the
    correspondence check on every alignment-level feature it sees (C08 specifies
    composition at cell level only, so this is not derived here). *)
From CG3 Require Import Proofs.IndelMapBounded Proofs.AnnotAlnSpansProofs.

Theorem aln_feature_slice_row_strings : forall fx r spans minus fv am t,
  IndelMapSpec.WF (amap r) ->
  Annot.make_feature fx (vlen (sv (adata r))) (is_reversed (sv (adata r))) spans minus = View.Ok fv ->
  aligned_make_feature fx r spans minus = Ok (fv_minus fv, am) ->
  RowWF t -> skind (adata t) = KDna ->
  fm_get_coordinates (fm_without_gaps am) <> [] ->
  segs_ok 0 (row_len t) (fm_get_coordinates (fm_without_gaps am)) ->
  row_feature_slice t (fv_minus fv) am =
    Ok (let s := gather (row_str t) (somes (den am)) in if fv_minus fv then rc_str KDna s else s).
Proof. exact aln_feature_slice_rows. Qed.
