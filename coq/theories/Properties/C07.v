(** C07 — Incrementally recalculated likelihoods equal a fresh calculation.
    Only theorem statements; every proof is [exact <lemma>].

    Vocabulary (Model/Calc.v, Spec/CalcSpec.v, Proofs/CalcProofs.v):
    [wf_graph g]   : args of every cell have smaller rank, OptPars come first, g non-empty
    [Inv g cvals s]: the refinement invariant of the Calculator state s — the live
                     buffer is the solution of the DAG equations for last_values, the
                     other buffer (when an undo is pending) the solution for
                     last_values with the undo applied, and the recycled arrays of the
                     two buffers and the spare are never confused
    [wf_op g o]    : a change vector names OptPars (index < nopt g), each at most once;
                     a full vector has nopt g entries
    [hist_ok ...]  : see Spec/CalcSpec.v — every value returned during the history is the
                     output of a FRESH evaluation at the requested parameter vector *)
From Coq Require Import List Arith Bool Lia.
Import ListNotations.
From CG3 Require Import Model.Calc Spec.CalcSpec Proofs.CalcProofs Model.CalcScope Proofs.CalcScopeProofs.

(** cells_changed_by: for every set of changed keys the cached program is in
    rank order, holds evaluated cells only, and is closed under dependency *)
Theorem consequence_programs_closed : forall g keys, wf_args g -> prog_ok g keys (program g keys).
Proof. exact program_ok. Qed.

(** a buffer that solves the DAG equations holds exactly the fresh evaluation *)
Theorem solution_is_fresh : forall (V : Type) (dflt : V) (f : nat -> list V -> option V) (tr : nat -> V -> V)
    (g : graph) (cvals x : list V) (buf : list (slot V)),
  wf_args g -> solves V dflt f tr g cvals x buf ->
  fresh V dflt f g (inputs_of V dflt tr g cvals x) = Some (vals V buf).
Proof. exact fresh_of_solves. Qed.

(** one change()/testoptparvector() call — with the undo short-cut, the buffer
    switch, the recycle/undo dance, a failing cell — preserves the invariant; a
    returned value is the fresh evaluation at the requested vector; the
    internal assertion never fires *)
Theorem calc_inv_step : forall (V : Type) (dflt : V) (f : nat -> list V -> option V) (tr tinv : nat -> V -> V)
    (veq : V -> V -> bool), (forall a b, veq a b = true <-> a = b) ->
  forall g cvals s o,
    wf_graph g -> Inv V dflt f tr g cvals s -> wf_op V g o ->
    let '(s', r) := step V dflt f tr veq g s o in
    Inv V dflt f tr g cvals s' /\
    match r with
    | RVal v => lastv V s' = requested V (lastv V s) o /\
                fresh V dflt f g (inputs_of V dflt tr g cvals (requested V (lastv V s) o)) = Some (vals V (cur V s')) /\
                v = nth (length g - 1) (vals V (cur V s')) dflt
    | RExc _ => fresh V dflt f g (inputs_of V dflt tr g cvals (requested V (lastv V s) o)) = None
    | RAssert => False
    end.
Proof. exact step_ok. Qed.

(** EVERY history of change vectors (single, multiple, reverting, repeated,
    failing) read from the incremental calculator = fresh evaluation *)
Theorem calc_refines_fresh : forall (V : Type) (dflt : V) (f : nat -> list V -> option V) (tr tinv : nat -> V -> V)
    (veq : V -> V -> bool), (forall a b, veq a b = true <-> a = b) ->
  forall g cvals, wf_graph g -> forall ops s,
    Inv V dflt f tr g cvals s -> Forall (wf_op V g) ops ->
    let '(s', rs) := run V dflt f tr veq g s ops in
    Inv V dflt f tr g cvals s' /\ hist_ok V dflt f tr g cvals (lastv V s) ops rs (lastv V s').
Proof. exact run_ok. Qed.

(** Calculator.__init__ (priming, shared arrays of constant cells, distinct
    arrays of variable recycled cells) establishes the invariant *)
Theorem calc_inv_init : forall (V : Type) (dflt : V) (f : nat -> list V -> option V) (tr tinv : nat -> V -> V)
    (g : graph) (inp0 : list V) (s : state V),
  wf_graph g ->
  (forall i, i < nopt g -> tr i (tinv i (nth i inp0 dflt)) = nth i inp0 dflt) ->
  init V dflt f tinv g inp0 = Some s ->
  Inv V dflt f tr g inp0 s.
Proof. exact init_ok. Qed.

(** headline: from a newly made calculator, any history; and at the end the
    live buffer is the fresh evaluation at the calculator's own value array *)
Theorem calc_history_from_init : forall (V : Type) (dflt : V) (f : nat -> list V -> option V) (tr tinv : nat -> V -> V)
    (veq : V -> V -> bool), (forall a b, veq a b = true <-> a = b) ->
  forall g inp0 s0 ops,
    wf_graph g ->
    (forall i, i < nopt g -> tr i (tinv i (nth i inp0 dflt)) = nth i inp0 dflt) ->
    init V dflt f tinv g inp0 = Some s0 ->
    Forall (wf_op V g) ops ->
    let '(s', rs) := run V dflt f tr veq g s0 ops in
    hist_ok V dflt f tr g inp0 (lastv V s0) ops rs (lastv V s') /\
    fresh V dflt f g (inputs_of V dflt tr g inp0 (lastv V s')) = Some (vals V (cur V s')).
Proof. exact run_from_init. Qed.

(** testfunction(): reading the calculator without changing inputs *)
Theorem testfunction_is_fresh : forall (V : Type) (dflt : V) (f : nat -> list V -> option V) (tr : nat -> V -> V)
    (g : graph) (cvals : list V) (s : state V),
  wf_graph g -> Inv V dflt f tr g cvals s ->
  exists vs, fresh V dflt f g (inputs_of V dflt tr g cvals (lastv V s)) = Some vs /\
             testfunction V dflt g s = nth (length g - 1) vs dflt.
Proof. exact testfunction_fresh. Qed.

(** the hypotheses are satisfiable: a graph with a recycled cell, its initial
    state, a history with an undo short-cut and a failing vector *)
Theorem hypotheses_satisfiable :
  wf_graph ex_g /\ (exists s0, init nat 0 ex_f (fun _ v => v) ex_g [1; 2; 0; 0] = Some s0) /\
  Forall (wf_op nat ex_g) [OChange [(0, 3)]; OChange [(0, 1); (1, 5)]; OVec [1; 2]; OVec [9; 9]].
Proof. exact (conj ex_wf (conj ex_init ex_ops_wf)). Qed.

(** the dirty-set controller (ParameterController._changed / _update_suspended /
    updates_postponed / _updateIntermediateValues), definition updates that RAISE
    part-way through a propagation included ([fails]; the exception reaches the
    caller, who may go on changing settings).  With the dirty set retained across a
    raising update ([retain = true]: the pinned code clears _changed only after the
    loop) and postponed blocks that exit normally or through `finally:` —
    after ANY history updates are not suspended, and whenever the dirty set is empty
    (i.e. the last propagation went through: failed ones followed by a successful
    one) every definition value is the one a fresh evaluation from the final
    settings gives *)
Theorem controller_refines_fresh : forall (V : Type) (dflt : V) (h : nat -> list V -> V)
    (fails : nat -> list V -> bool) (retain : bool) fin g asg ops,
  wf_dgraph g -> retain = true ->
  (fin = true \/ Forall (no_raise V) ops) ->
  let s := fold_left (cstep V dflt h fails retain fin g) ops (cinit V dflt h fails retain g asg) in
  suspended V s = false /\ assigned V s = spec_asg V asg ops /\
  (changed V s = [] ->
     values V s = cfresh V dflt h g (spec_asg V asg ops) /\
     final V dflt g s = nth (length g - 1) (cfresh V dflt h g (spec_asg V asg ops)) dflt).
Proof. exact ctl_refines_fresh. Qed.

(** ... and the swap-and-clear variant ([retain = false]) is refuted: a rejected
    assignment followed by a repairing one leaves a definition stale although the
    dirty set is empty; the retaining variant is right on the same history *)
Theorem lost_dirty_set_refuted :
  let g : dgraph := [[]; []; [0; 1]; [0]] in
  let ops := [CAssign 0 5; CAssign 1 10] in
  wf_dgraph g /\
  (let s := fold_left (cstep nat 0 hsum fails_ex false true g) ops (cinit nat 0 hsum fails_ex false g [1; 20; 0; 0]) in
   changed nat s = [] /\ values nat s <> cfresh nat 0 hsum g (assigned nat s)) /\
  (let s := fold_left (cstep nat 0 hsum fails_ex true true g) ops (cinit nat 0 hsum fails_ex true g [1; 20; 0; 0]) in
   changed nat s = [] /\ values nat s = cfresh nat 0 hsum g (assigned nat s)).
Proof. exact lost_dirty_set_stale. Qed.

(** rule export -> import (Setting.get_param_rule_dict -> set_param_rule ->
    assign_all, one scope): the imported setting IS the exported one, for every
    constant, every free numeric setting with lower <= value <= upper — values
    exactly 0 or exactly on a bound included — and every non-scalar setting,
    whatever the target function currently holds *)
Theorem rules_roundtrip_setting : forall (V : Type) (ltb : V -> V -> bool) (truthy : V -> bool) (dlower dupper : V)
    numeric c s,
  valid_setting V ltb numeric s ->
  import V ltb truthy dlower dupper numeric c (export V s) = ROk V s.
Proof. exact import_export_id. Qed.

Theorem rules_export_keeps_every_key : forall (V : Type) (s : setting V),
  rule_keys V (export V s) =
  match s with
  | SConst _ _ => [true; true; false; false; false]
  | SVar _ _ _ _ => [false; false; true; true; true]
  | SNVar _ _ => [false; false; true; false; false]
  end.
Proof. exact export_keys. Qed.

(** ** the scope table of one parameter (Model/CalcScope.v): scope tuple -> Setting object.

    [spec_run k rs c x] is the per-cell specification: fold the rules over ONE cell,
    a rule that covers the cell overwriting (tag, constancy, value).  The tag records
    which write the cell last saw: TTied k (rule number k, shared by all cells it
    covers) or TIndep k c (an independent rule gives every cell its own setting). *)

(** latest-write-wins: the specification IS "the last rule whose scope covers the cell" *)
Theorem scope_last_write_wins : forall (V : Type) (indep_default : bool) (rs1 : list (srule V)) (r : srule V)
    (rs2 : list (srule V)) (c : scell) (x : cinfo V),
  covers (ru_scope r) c = true ->
  (forall r', In r' rs2 -> covers (ru_scope r') c = false) ->
  spec_run V indep_default 0 (rs1 ++ r :: rs2) c x =
  mk_cinfo V (if is_indep V indep_default r then TIndep (length rs1) c else TTied (length rs1)) (ru_const r)
           (rule_val V r (ci_val V (spec_run V indep_default 0 rs1 c x))).
Proof. exact spec_run_last. Qed.

(** ANY history of scoped set_param_rule calls on any table (interpret_scope,
    interpret_scopes incl. the split over unmentioned dimensions, assign_all,
    get_current_bounds, clipping): every cell holds the value and constancy of the
    last rule covering it; two cells hold the SAME Setting object (one optimisable
    parameter) iff the same tied rule was the last to cover both *)
Theorem scope_history_refines : forall (V : Type) (ltb veqb : V -> V -> bool) (mean : list V -> V) (L U : V)
    (indep_default : bool),
  (forall x, ltb x x = false) -> ltb U L = false -> veqb U L = false ->
  forall (rs : list (srule V)) (t0 : table V) (nid0 : nat),
  NoDup (map fst t0) -> uniform V L U t0 -> (forall c s, In (c, s) t0 -> g_id s < nid0) ->
  coherent V t0 -> inbounds V ltb L U t0 -> Forall (wf_rule V ltb L U) rs ->
  exists (t : table V) (n : nat),
    assign_rules V ltb veqb mean L U indep_default rs (t0, nid0) = Some (t, n) /\
    map fst t = map fst t0 /\ uniform V L U t /\ coherent V t /\ inbounds V ltb L U t /\
    forall c s, In (c, s) t ->
      let x := spec_run V indep_default 0 rs c (info0 V L t0 c) in
      g_val s = ci_val V x /\ g_const s = ci_const V x /\
      (g_const s = false -> g_lower s = L /\ g_upper s = U) /\
      forall c' s', In (c', s') t ->
        (g_id s = g_id s' <-> ci_tag V x = ci_tag V (spec_run V indep_default 0 rs c' (info0 V L t0 c'))).
Proof. exact scope_history. Qed.

(** nfp (= number of distinct non-constant Setting objects) depends only on the
    partition of the cells and on which cells are constant *)
Theorem scope_nfp_partition : forall (V : Type) (t t' : table V),
  NoDup (map fst t) -> map fst t' = map fst t ->
  (forall c s s', In (c, s) t -> In (c, s') t' -> g_const s' = g_const s) ->
  (forall c1 s1 s1' c2 s2 s2', In (c1, s1) t -> In (c1, s1') t' -> In (c2, s2) t -> In (c2, s2') t' ->
      (g_id s1' = g_id s2' <-> g_id s1 = g_id s2)) ->
  nfp V t' = nfp V t.
Proof. exact nfp_same_partition. Qed.

(** get_param_rules -> apply_param_rules on a fresh controller, at the scope level
    (composes with rules_roundtrip_setting): same cell -> (value, constancy, bounds)
    map, same partition, same nfp — PROVIDED every tie group is a box (equals the
    bounding box of its cells; always true when only one dimension is scoped) *)
Theorem scope_rules_roundtrip : forall (V : Type) (ltb veqb : V -> V -> bool) (mean : list V -> V) (L U : V)
    (indep_default : bool),
  (forall x, ltb x x = false) -> ltb U L = false -> veqb U L = false ->
  forall (t t0 : table V) (nid0 : nat),
  NoDup (map fst t) -> uniform V L U t -> inbounds V ltb L U t -> coherent V t -> boxes V t ->
  map fst t0 = map fst t -> uniform V L U t0 -> (forall c s, In (c, s) t0 -> g_id s < nid0) ->
  coherent V t0 -> inbounds V ltb L U t0 ->
  exists (t' : table V) (n : nat),
    assign_rules V ltb veqb mean L U indep_default (export_rules V indep_default false t) (t0, nid0) = Some (t', n) /\
    map fst t' = map fst t /\
    (forall c s s', In (c, s) t -> In (c, s') t' ->
       g_val s' = g_val s /\ g_const s' = g_const s /\
       (g_const s = false -> g_lower s' = g_lower s /\ g_upper s' = g_upper s)) /\
    (forall c1 s1 s1' c2 s2 s2', In (c1, s1) t -> In (c1, s1') t' -> In (c2, s2) t -> In (c2, s2') t' ->
       (g_id s1' = g_id s2' <-> g_id s1 = g_id s2)) /\
    nfp V t' = nfp V t.
Proof. exact scope_roundtrip. Qed.

(** a rule refused with ValueError (one of its scopes — not necessarily the first one
    visited — ends up with lower > upper) assigns NOTHING, and a history in which the
    caller catches the error and carries on equals the history without that rule *)
Theorem scope_rejected_rule_all_or_nothing : forall (V : Type) (ltb veqb : V -> V -> bool) (mean : list V -> V) (L U : V)
    (r : srule V) (t1 t2 : table V) c s nid,
  covers (ru_scope r) c = true ->
  new_stg V ltb veqb mean L U r (nid + length (filter (fun cs => covers (ru_scope r) (fst cs)) t1)) [s] = None ->
  assign_indep V ltb veqb mean L U r (t1 ++ (c, s) :: t2) nid = None.
Proof. exact assign_indep_all_or_nothing. Qed.

Theorem scope_rejected_rule_no_trace : forall (V : Type) (ltb veqb : V -> V -> bool) (mean : list V -> V) (L U : V)
    (indep_default : bool) rs1 r rs2 tn,
  assign_rule V ltb veqb mean L U indep_default r (assign_rules_tol V ltb veqb mean L U indep_default rs1 tn) = None ->
  assign_rules_tol V ltb veqb mean L U indep_default (rs1 ++ r :: rs2) tn =
  assign_rules_tol V ltb veqb mean L U indep_default (rs1 ++ rs2) tn.
Proof. exact rejected_rule_no_trace. Qed.

(** ... and it FAILS for a tie group that is not a box: a parameter tied over
    2 edges x 2 bins, then one corner set separately — the exported rule of the
    remainder covers the corner too and is applied after the corner's rule: the
    imported controller has 1 free parameter instead of 2.  Replayed on the real
    likelihood function by the check (key lf:roundtrip:non-box-tie-group). *)
Theorem scope_roundtrip_nonbox_refuted :
  match assign_rules nat Nat.ltb Nat.eqb nmean 1 100 false ex_rules (ex_t0, 5) with
  | Some (t, _) =>
      nfp nat t = 2 /\
      match assign_rules nat Nat.ltb Nat.eqb nmean 1 100 false (export_rules nat false false t) (ex_t0, 5) with
      | Some (t', _) => nfp nat t' = 1
      | None => False
      end
  | None => False
  end.
Proof. exact scope_roundtrip_nonbox_witness. Qed.

(** the hypotheses of the scope theorems are satisfiable *)
Theorem scope_hypotheses_hold :
  NoDup (map fst ex_box) /\ uniform nat 1 100 ex_box /\ inbounds nat Nat.ltb 1 100 ex_box /\ coherent nat ex_box /\
  boxes nat ex_box /\ map fst ex_t0 = map fst ex_box /\ uniform nat 1 100 ex_t0 /\
  (forall c s, In (c, s) ex_t0 -> g_id s < 5) /\ coherent nat ex_t0 /\ inbounds nat Nat.ltb 1 100 ex_t0 /\
  Forall (wf_rule nat Nat.ltb 1 100) ex_rules.
Proof. exact scope_hypotheses_satisfiable. Qed.

(** the faithful model of updates_postponed WITHOUT try/finally VIOLATES "every
    history ends in the fresh value": a block that raises after an assignment
    leaves _update_suspended set, and a later plain assignment is not
    propagated.  Witness replayed on the real ParameterController by the check. *)
Theorem postponed_exception_refuted :
  exists (g : dgraph) (asg : list nat) (ops : list (cop nat)),
    wf_dgraph g /\
    let s := fold_left (cstep nat 0 hsum (fun _ _ => false) true false g) ops (cinit nat 0 hsum (fun _ _ => false) true g asg) in
    final nat 0 g s <> nth (length g - 1) (cfresh nat 0 hsum g (assigned nat s)) 0.
Proof. exact postponed_exception_stale. Qed.
