(** C07 — Incrementally recalculated likelihoods equal a fresh calculation.
    Only theorem statements; every proof is [exact <lemma>].

    Vocabulary (Model/Calc.v, Spec/CalcSpec.v, Proofs/CalcProofs.v):
    [wf_graph g]   : args of every cell have smaller rank, OptPars come first, g non-empty
    [Inv g cvals s]: the refinement invariant of the Calculator state s — the live
                     buffer is the solution of the DAG equations for last_values, the
                     other buffer (when an undo is pending) the solution for
                     last_values with the undo applied, and the recycled arrays of the
                     two buffers and the spare are never confused
    [wf_op g o]    : a change vector names OptPars (index < nopt g), each at most once;
                     a full vector has nopt g entries
    [hist_ok ...]  : see Spec/CalcSpec.v — every value returned during the history is the
                     output of a FRESH evaluation at the requested parameter vector *)
From Coq Require Import List Arith Bool Lia.
Import ListNotations.
From CG3 Require Import Model.Calc Spec.CalcSpec Proofs.CalcProofs.

(** cells_changed_by: for every set of changed keys the cached program is in
    rank order, holds evaluated cells only, and is closed under dependency *)
Theorem consequence_programs_closed : forall g keys, wf_args g -> prog_ok g keys (program g keys).
Proof. exact program_ok. Qed.

(** a buffer that solves the DAG equations holds exactly the fresh evaluation *)
Theorem solution_is_fresh : forall (V : Type) (dflt : V) (f : nat -> list V -> option V) (tr : nat -> V -> V)
    (g : graph) (cvals x : list V) (buf : list (slot V)),
  wf_args g -> solves V dflt f tr g cvals x buf ->
  fresh V dflt f g (inputs_of V dflt tr g cvals x) = Some (vals V buf).
Proof. exact fresh_of_solves. Qed.

(** one change()/testoptparvector() call — with the undo short-cut, the buffer
    switch, the recycle/undo dance, a failing cell — preserves the invariant; a
    returned value is the fresh evaluation at the requested vector; the
    internal assertion never fires *)
Theorem calc_inv_step : forall (V : Type) (dflt : V) (f : nat -> list V -> option V) (tr tinv : nat -> V -> V)
    (veq : V -> V -> bool), (forall a b, veq a b = true <-> a = b) ->
  forall g cvals s o,
    wf_graph g -> Inv V dflt f tr g cvals s -> wf_op V g o ->
    let '(s', r) := step V dflt f tr veq g s o in
    Inv V dflt f tr g cvals s' /\
    match r with
    | RVal v => lastv V s' = requested V (lastv V s) o /\
                fresh V dflt f g (inputs_of V dflt tr g cvals (requested V (lastv V s) o)) = Some (vals V (cur V s')) /\
                v = nth (length g - 1) (vals V (cur V s')) dflt
    | RExc _ => fresh V dflt f g (inputs_of V dflt tr g cvals (requested V (lastv V s) o)) = None
    | RAssert => False
    end.
Proof. exact step_ok. Qed.

(** EVERY history of change vectors (single, multiple, reverting, repeated,
    failing) read from the incremental calculator = fresh evaluation *)
Theorem calc_refines_fresh : forall (V : Type) (dflt : V) (f : nat -> list V -> option V) (tr tinv : nat -> V -> V)
    (veq : V -> V -> bool), (forall a b, veq a b = true <-> a = b) ->
  forall g cvals, wf_graph g -> forall ops s,
    Inv V dflt f tr g cvals s -> Forall (wf_op V g) ops ->
    let '(s', rs) := run V dflt f tr veq g s ops in
    Inv V dflt f tr g cvals s' /\ hist_ok V dflt f tr g cvals (lastv V s) ops rs (lastv V s').
Proof. exact run_ok. Qed.

(** Calculator.__init__ (priming, shared arrays of constant cells, distinct
    arrays of variable recycled cells) establishes the invariant *)
Theorem calc_inv_init : forall (V : Type) (dflt : V) (f : nat -> list V -> option V) (tr tinv : nat -> V -> V)
    (g : graph) (inp0 : list V) (s : state V),
  wf_graph g ->
  (forall i, i < nopt g -> tr i (tinv i (nth i inp0 dflt)) = nth i inp0 dflt) ->
  init V dflt f tinv g inp0 = Some s ->
  Inv V dflt f tr g inp0 s.
Proof. exact init_ok. Qed.

(** headline: from a newly made calculator, any history; and at the end the
    live buffer is the fresh evaluation at the calculator's own value array *)
Theorem calc_history_from_init : forall (V : Type) (dflt : V) (f : nat -> list V -> option V) (tr tinv : nat -> V -> V)
    (veq : V -> V -> bool), (forall a b, veq a b = true <-> a = b) ->
  forall g inp0 s0 ops,
    wf_graph g ->
    (forall i, i < nopt g -> tr i (tinv i (nth i inp0 dflt)) = nth i inp0 dflt) ->
    init V dflt f tinv g inp0 = Some s0 ->
    Forall (wf_op V g) ops ->
    let '(s', rs) := run V dflt f tr veq g s0 ops in
    hist_ok V dflt f tr g inp0 (lastv V s0) ops rs (lastv V s') /\
    fresh V dflt f g (inputs_of V dflt tr g inp0 (lastv V s')) = Some (vals V (cur V s')).
Proof. exact run_from_init. Qed.

(** testfunction(): reading the calculator without changing inputs *)
Theorem testfunction_is_fresh : forall (V : Type) (dflt : V) (f : nat -> list V -> option V) (tr : nat -> V -> V)
    (g : graph) (cvals : list V) (s : state V),
  wf_graph g -> Inv V dflt f tr g cvals s ->
  exists vs, fresh V dflt f g (inputs_of V dflt tr g cvals (lastv V s)) = Some vs /\
             testfunction V dflt g s = nth (length g - 1) vs dflt.
Proof. exact testfunction_fresh. Qed.

(** the hypotheses are satisfiable: a graph with a recycled cell, its initial
    state, a history with an undo short-cut and a failing vector *)
Theorem hypotheses_satisfiable :
  wf_graph ex_g /\ (exists s0, init nat 0 ex_f (fun _ v => v) ex_g [1; 2; 0; 0] = Some s0) /\
  Forall (wf_op nat ex_g) [OChange [(0, 3)]; OChange [(0, 1); (1, 5)]; OVec [1; 2]; OVec [9; 9]].
Proof. exact (conj ex_wf (conj ex_init ex_ops_wf)). Qed.

(** the dirty-set controller (ParameterController._changed / _update_suspended /
    updates_postponed / _updateIntermediateValues): after ANY sequence of leaf
    assignments and postponed blocks — provided no block raises, or the exit code
    of updates_postponed sits in a `finally:` clause ([fin = true], the proposed
    fix) — updates are not suspended and every definition value is the one a
    fresh evaluation from the final settings gives *)
Theorem controller_refines_fresh : forall (V : Type) (dflt : V) (h : nat -> list V -> V) fin g asg ops,
  wf_dgraph g ->
  (fin = true \/ Forall (no_raise V) ops) ->
  let s := fold_left (cstep V dflt h fin g) ops (cinit V dflt h g asg) in
  suspended V s = false /\
  values V s = cfresh V dflt h g (spec_asg V asg ops) /\
  final V dflt g s = nth (length g - 1) (cfresh V dflt h g (spec_asg V asg ops)) dflt.
Proof. exact ctl_refines_fresh. Qed.

(** rule export -> import (Setting.get_param_rule_dict -> set_param_rule ->
    assign_all, one scope): the imported setting IS the exported one, for every
    constant, every free numeric setting with lower <= value <= upper — values
    exactly 0 or exactly on a bound included — and every non-scalar setting,
    whatever the target function currently holds *)
Theorem rules_roundtrip_setting : forall (V : Type) (ltb : V -> V -> bool) (truthy : V -> bool) (dlower dupper : V)
    numeric c s,
  valid_setting V ltb numeric s ->
  import V ltb truthy dlower dupper numeric c (export V s) = ROk V s.
Proof. exact import_export_id. Qed.

Theorem rules_export_keeps_every_key : forall (V : Type) (s : setting V),
  rule_keys V (export V s) =
  match s with
  | SConst _ _ => [true; true; false; false; false]
  | SVar _ _ _ _ => [false; false; true; true; true]
  | SNVar _ _ => [false; false; true; false; false]
  end.
Proof. exact export_keys. Qed.

(** the faithful model of updates_postponed WITHOUT try/finally VIOLATES "every
    history ends in the fresh value": a block that raises after an assignment
    leaves _update_suspended set, and a later plain assignment is not
    propagated.  Witness replayed on the real ParameterController by the check. *)
Theorem postponed_exception_refuted :
  exists (g : dgraph) (asg : list nat) (ops : list (cop nat)),
    wf_dgraph g /\
    let s := fold_left (cstep nat 0 hsum false g) ops (cinit nat 0 hsum g asg) in
    final nat 0 g s <> nth (length g - 1) (cfresh nat 0 hsum g (assigned nat s)) 0.
Proof. exact postponed_exception_stale. Qed.
