(** C18 — Aligners preserve their inputs and are optimal for their own model.

    Model: [Model/PairAlign.v] (the Viterbi recursion of
    cogent3/align/pairwise.py [py_calc_rows] for two sequences and the states
    X, Y, M, in log space, for ARBITRARY transition / emission score tables over
    the integers extended with -inf; affine gaps are the special case produced
    by [classic_gap_scores]) and [Model/StarMerge.v] (the gap bookkeeping of
    [pairwise_to_multiple] in cogent3/app/align.py).
    Specification: [Spec/AlignSpec.v] ([gscore]: sum of the transition and
    emission scores along a path; [valid_rows]; [project]).

    Statements are about every pair of sequences and every score table. *)
From CG3 Require Import Lib.PyZ Lib.Val Lib.MaxPlus Model.PairAlign Spec.AlignSpec Model.StarMerge
  Spec.AlignFwdSpec Model.Hirschberg Proofs.AlignProofs Proofs.AlignFwdProofs Proofs.AlignLocalProofs
  Proofs.AlignFiniteProofs Proofs.HirschbergProofs Proofs.HirschbergRecProofs Proofs.StarRows Proofs.StarMergeProofs Proofs.StarMergeGenProofs.

(** HEADLINE, in the forward reading of a path's score ([AlignFwdSpec.fscore]:
    start at BEGIN, add the transition into each column's state and its
    emission, add the transition to END): the reported score is the score of
    the returned path and no path whatsoever scores higher. *)
Theorem global_score_correct_and_optimal :
  forall P xs ys z p,
    align_global P xs ys = (Some z, p) ->
    fscore P SB p xs ys = Some z /\ forall p', ele (fscore P SB p' xs ys) (Some z).
Proof. exact AlignFwdProofs.global_forward. Qed.

(** forward and backward readings of the score agree for every path *)
Theorem forward_score_is_backward_score :
  forall P p xs ys, fscore P SB p xs ys = gscore P (rev p) (rev xs) (rev ys).
Proof. exact AlignFwdProofs.fscore_is_gscore. Qed.

(** the reported score is the score of the returned path, recomputed by the
    specification's (backward) score function *)
Theorem global_score_is_path_score :
  forall P xs ys z p,
    align_global P xs ys = (Some z, p) -> gscore P (rev p) (rev xs) (rev ys) = Some z.
Proof. exact AlignProofs.global_score_is_path_score. Qed.

(** the returned rows are a valid alignment of the inputs: equal lengths,
    degapping gives back exactly the inputs, no all-gap column; and the rows
    spell the returned path *)
Theorem global_alignment_valid :
  forall P xs ys z p,
    residues xs -> residues ys ->
    align_global P xs ys = (Some z, p) ->
    valid_rows (fst (rows_of p xs ys)) (snd (rows_of p xs ys)) xs ys /\
    path_of_rows (fst (rows_of p xs ys)) (snd (rows_of p xs ys)) = p.
Proof. exact AlignProofs.global_alignment_valid. Qed.

(** no path scores higher (paths that do not fit the two sequences score -inf) *)
Theorem global_alignment_optimal :
  forall P xs ys q, ele (gscore P q (rev xs) (rev ys)) (fst (align_global P xs ys)).
Proof. exact AlignProofs.global_alignment_optimal. Qed.

(** the same about gapped rows: no pair of rows spells a better alignment *)
Theorem global_rows_optimal :
  forall P xs ys r1 r2,
    ele (gscore P (rev (path_of_rows r1 r2)) (rev xs) (rev ys)) (fst (align_global P xs ys)).
Proof. exact AlignProofs.global_rows_optimal. Qed.

(** for EVERY pair of sequences the global aligner returns a finite score and a
    valid alignment, as soon as the score table allows the paths X..X M Y..Y
    that every gap-open / gap-extend table allows ([has_gap_path]: BEGIN->X/Y/M,
    X->X, X->M, M->Y, Y->Y, ->END and the emissions are finite; X<->Y may be
    forbidden as in [classic_gap_scores]) *)
Theorem global_always_aligns :
  forall P xs ys,
    has_gap_path P -> residues xs -> residues ys ->
    exists z p, align_global P xs ys = (Some z, p) /\
                valid_rows (fst (rows_of p xs ys)) (snd (rows_of p xs ys)) xs ys.
Proof. exact AlignFiniteProofs.global_always_valid. Qed.

Theorem has_gap_path_nonvacuous : has_gap_path ex_params.
Proof. exact AlignFiniteProofs.ex_params_has_gap_path. Qed.

(** a reported -inf means that the model admits no alignment at all *)
Theorem global_none_means_no_alignment :
  forall P xs ys, fst (align_global P xs ys) = None -> forall q, gscore P q (rev xs) (rev ys) = None.
Proof. exact AlignProofs.align_global_none. Qed.

(** the hypotheses above are satisfiable: a concrete classic-style instance *)
Theorem global_example_nonvacuous :
  align_global ex_params [0; 1; 2; 3] [0; 1; 3] = (Some 17, [SM; SM; SX; SM]) /\
  residues [0; 1; 2; 3] /\ residues [0; 1; 3] /\
  rows_of [SM; SM; SX; SM] [0; 1; 2; 3] [0; 1; 3] = ([0; 1; 2; 3], [0; 1; GAP; 3]).
Proof. exact AlignProofs.global_example. Qed.

(** ---------------------------------------------------------------- star merge ([pairwise_to_multiple])

    [star_merge false] is the model of the pinned code, [star_merge true] the
    model of the code with the repaired [_GapOffset] rule
    (notes/proposed_fixes/C18-1.diff).  [pairwise_ok ref (r, o)]: the two rows
    have equal length, r degaps to the reference, no all-gap column. *)

(** residues are never altered (row 0 degaps to the reference, row i+1 to the
    i-th other sequence), for both rules *)
Theorem star_merge_degapped :
  forall fixed ref pw rows,
    Forall (fun a => a <> GAP) ref ->
    star_merge fixed ref pw = Some rows ->
    exists r0 others, rows = r0 :: others /\ degap r0 = ref /\
                      Forall2 (fun ro row => degap row = degap (snd ro)) pw others.
Proof. exact StarMergeProofs.star_merge_degapped. Qed.

(** all rows of the multiple alignment have the same length, for both rules and
    every list of pairwise alignments *)
Theorem star_merge_equal_lengths :
  forall fixed ref pw rows,
    Forall (pairwise_ok ref) pw -> star_merge fixed ref pw = Some rows ->
    Forall (fun row => length row = length (hd [] rows)) rows.
Proof. exact StarMergeGenProofs.star_merge_equal_lengths. Qed.

(** REPAIRED rule: for every reference and every list of pairwise alignments to
    it the merge succeeds, every pairwise alignment is the projection of
    (reference row, its row), and all rows have the same length *)
Theorem star_merge_repaired_correct :
  forall ref pw,
    Forall isres ref -> Forall (pairwise_ok ref) pw ->
    exists rows,
      star_merge true ref pw = Some rows /\
      Forall2 (fun ro row => project (hd [] rows) row = ro) pw (tl rows) /\
      Forall (fun row => length row = length (hd [] rows)) rows.
Proof. exact StarMergeGenProofs.star_merge_fixed_correct. Qed.

Definition stmt_star_merge_keeps_pairwise_fixed : Prop := star_merge_keeps_pairwise true.

Theorem star_merge_keeps_pairwise_repaired : stmt_star_merge_keeps_pairwise_fixed.
Proof. exact StarMergeGenProofs.star_merge_keeps_pairwise_fixed. Qed.

(** PINNED rule: the same conclusion whenever no new reference gap of a pairwise
    alignment falls strictly inside a gap of its other sequence
    ([no_new_gap_inside]: for every (r, o) and every (column, length) in the
    new reference gaps of r, the columns left and right of the insertion point
    are not both gaps of o) — this is exactly where the pinned code is right:
    outside that case the two rules compute the same ([key_pinned_eq]), inside
    it the witness below fails *)
Theorem star_merge_pinned_correct_without_gap_inside :
  forall ref pw,
    Forall isres ref -> Forall (pairwise_ok ref) pw -> no_new_gap_inside pw ->
    exists rows,
      star_merge false ref pw = Some rows /\
      Forall2 (fun ro row => project (hd [] rows) row = ro) pw (tl rows) /\
      Forall (fun row => length row = length (hd [] rows)) rows.
Proof. exact StarMergeGenProofs.star_merge_pinned_correct. Qed.

Theorem star_merge_hypotheses_nonvacuous :
  Forall isres ex_ref /\ Forall (pairwise_ok ex_ref) ex_pw /\ no_new_gap_inside ex_pw.
Proof. exact StarMergeGenProofs.ex_hyps. Qed.

(** "aligning to a reference keeps each sequence's pairwise alignment with the
    reference" is FALSE of the faithful model of the pinned code ([star_merge false]): the witness
    is ref CCAG with ('CCA-G','--TT-'), ('C-CAG','-TT--'), ('C-CAG','AG---'). *)
Definition stmt_star_merge_keeps_pairwise : Prop := star_merge_keeps_pairwise false.

Theorem star_merge_witness_repaired :
  exists rows, star_merge true w_ref w_pw = Some rows /\
               Forall2 (fun ro row => project (hd [] rows) row = ro) w_pw (tl rows).
Proof. exact StarMergeProofs.star_merge_witness_fixed. Qed.

Theorem star_merge_keeps_pairwise_refuted :
  exists ref pw rows,
    Forall (fun a => a <> GAP) ref /\ Forall (pairwise_ok ref) pw /\
    star_merge false ref pw = Some rows /\
    exists ro row, In (ro, row) (combine pw (tl rows)) /\ project (hd [] rows) row <> ro.
Proof. exact StarMergeProofs.star_merge_witness. Qed.

Theorem star_merge_keeps_pairwise_is_false : ~ stmt_star_merge_keeps_pairwise.
Proof. exact StarMergeProofs.star_merge_keeps_pairwise_false. Qed.

(** ---------------------------------------------------------------- the divide step of the linear-space aligner

    [Model/Hirschberg.v]: forward scores of row k from the table, backward
    scores from the table of the mirrored problem, [middle] = their sums over
    the cells (k, j) and states, [hirsch_score] = the maximum. *)

(** for EVERY split row k the maximum of forward + backward over row k is the
    optimal global score: the score the linear-space algorithm reports is the
    score of the full dynamic programme *)
Theorem hirschberg_divide_score :
  forall P xs ys k, (k <= length xs)%nat -> hirsch_score P xs ys k = fst (align_global P xs ys).
Proof. exact HirschbergProofs.hirsch_score_is_opt. Qed.

(** every cell attaining the maximum lies on an optimal path that is in state s
    when it has consumed k residues of xs and j of ys: splitting there loses nothing *)
Theorem hirschberg_anchor_on_optimal_path :
  forall P xs ys k j s z,
    (k <= length xs)%nat -> (j <= length ys)%nat ->
    fst (align_global P xs ys) = Some z ->
    eplus (fwd_val P xs ys k j s) (bwd_val P xs ys k j s) = Some z ->
    exists p1 p2,
      fscore P SB (p1 ++ p2) xs ys = Some z /\
      count_x p1 = k /\ count_y p1 = j /\ prev_of (rev p1) = s.
Proof. exact HirschbergProofs.hirsch_anchor_on_optimal_path. Qed.

(** local alignment ([local_pairwise]): [align_local] returns the score, the
    path and the cell (i, j) the path ends in.  The reported score is the local
    score of the returned path over the prefixes ending at (i, j) (a local path
    may start anywhere and is entered through the match state), and no local
    path ending in a match at ANY cell (i', j') scores higher. *)
Theorem local_score_is_path_score_and_optimal :
  forall P xs ys v p i j,
    align_local P xs ys = (v, p, i, j) ->
    (forall z, v = Some z ->
       rscore P true (rev p) (rev (firstn (Z.to_nat i) xs)) (rev (firstn (Z.to_nat j) ys)) = Some z) /\
    (forall i' j' q, ele (rscore P true (SM :: q) (rev (firstn i' xs)) (rev (firstn j' ys))) v) /\
    (forall z, v = Some z -> 0 <= i <= zlen xs /\ 0 <= j <= zlen ys).
Proof. exact AlignLocalProofs.align_local_sound. Qed.

(** the local rows are a valid alignment of the contiguous parts
    xs[i-cx : i] and ys[j-cy : j] of the inputs (cx, cy = residues the path consumes) *)
Theorem local_alignment_valid :
  forall P xs ys z p i j,
    residues xs -> residues ys ->
    align_local P xs ys = (Some z, p, i, j) ->
    let ni := Z.to_nat i in let nj := Z.to_nat j in
    let sx := skipn (ni - count_x p) (firstn ni xs) in
    let sy := skipn (nj - count_y p) (firstn nj ys) in
    (count_x p <= ni <= length xs)%nat /\ (count_y p <= nj <= length ys)%nat /\
    valid_rows (fst (rows_of p sx sy)) (snd (rows_of p sx sy)) sx sy /\
    path_of_rows (fst (rows_of p sx sy)) (snd (rows_of p sx sy)) = p.
Proof. exact AlignLocalProofs.local_alignment_valid. Qed.

(** two non-empty sequences always get a finite local score *)
Theorem local_always_finite :
  forall P a xs b ys,
    fin (tr P SB SM) -> (forall x y, fin (em P x y)) ->
    exists z p i j, align_local P (a :: xs) (b :: ys) = (Some z, p, i, j).
Proof. exact AlignFiniteProofs.local_always_finite. Qed.

Theorem local_example_nonvacuous :
  align_local ex_params [0; 1; 2; 3; 3; 3; 2; 0] [1; 3; 3; 2] = (Some 29, [SM; SM; SM], 7, 4).
Proof. exact AlignLocalProofs.local_example. Qed.

(** the WHOLE recursion ([hirsch_align]: divide at the first maximal cell of the
    middle row, solve the left half with END reachable only from the anchor
    state and the right half entered from the anchor state, concatenate; full
    DP below 3 residues): for every score table and every pair of sequences it
    reports the score of the full dynamic programme, and the concatenated path
    has that score — linear-space = full DP, on the model *)
Theorem hirschberg_recursion_correct :
  forall P xs ys,
    fst (hirsch_align P xs ys) = fst (align_global P xs ys) /\
    (forall z, fst (hirsch_align P xs ys) = Some z -> fscore P SB (snd (hirsch_align P xs ys)) xs ys = Some z).
Proof. exact HirschbergRecProofs.hirsch_align_correct. Qed.

(** Not theorems (decided by the correspondence check only, see the driver):
    - that the implementation's linear-space code IS the modelled recursion:
      the check runs the same inputs with HIRSCHBERG_LIMIT forced to 0 / small,
      compares score, rows and the score recomputed from the rows with the
      model's [hirsch_align], and the implementation's middle row with
      [middle] of the model (alignments of alignments / POG midlinks are not modelled);
    - numba kernels = [py_calc_rows]; float log-scores vs exact scores;
    - progressive alignment on a guide tree (outputs observed only). *)
