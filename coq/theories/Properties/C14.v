(** C14 — Composed apps account for every input exactly once, on any schedule.
    Only theorem statements; every proof is [exact <lemma>]. *)
From Coq Require Import Permutation.
From CG3 Require Import Lib.PyZ Lib.Val Model.Apps Spec.AppsSpec Proofs.AppsProofs.

(** A composed app `a + b + c` (called through the `input` links, last app
    first) is the left-to-right evaluation of its stages with short-circuit on
    the first NotCompleted — for every stage behaviour (any [s_main]: success,
    exception, None, wrong type, returned NotCompleted), any type hints and
    any skip flags. *)
Theorem call_is_left_to_right : forall stages v,
  stages <> [] ->
  (forall s, In s (tl stages) -> s_kind s <> LOADER) ->
  is_nc v = false -> v <> VNone ->
  call (rev stages) v = forward stages v.
Proof. exact call_forward. Qed.

(** A not-completed value passes through the remaining steps unchanged. *)
Theorem nc_passthrough : forall self ups v,
  s_skip self = true -> is_nc v = true -> call (self :: ups) v = v.
Proof. exact call_nc_skip. Qed.

Theorem nc_passthrough_pipeline : forall stages v,
  all_skip stages -> is_nc v = true -> forward stages v = v.
Proof. exact forward_nc. Qed.

(** a failure at one stage is the value of the whole composition *)
Theorem first_failure_is_result : forall l1 s l2 v,
  all_skip l2 ->
  is_nc (forward l1 v) = false ->
  is_nc (stage_apply s (forward l1 v)) = true ->
  forward (l1 ++ s :: l2) v = stage_apply s (forward l1 v).
Proof. exact forward_first_failure. Qed.

(** record-level failures are values naming the failing step, message and source *)
Theorem exception_names_step : forall s v m,
  s_main s v = Raise m -> run_main s v = VNC s_ERROR (s_name s) m (source_of v).
Proof. exact run_main_raise. Qed.

Theorem none_names_step : forall s v,
  s_main s v = Ret VNone -> run_main s v = VNC s_BUG (s_name s) m_none_out (source_of v).
Proof. exact run_main_none. Qed.

Theorem wrong_type_names_step : forall s v f,
  is_nc v = false -> validate s v = Some f ->
  exists m src, f = VNC s_ERROR (s_name s) m src.
Proof. exact validate_reject_origin. Qed.

Theorem none_input_is_error : forall self ups,
  s_skip self = true -> call (self :: ups) VNone = mk_nc s_ERROR (s_name self) m_none_in None.
Proof. exact call_none. Qed.

(** later stages are never called on a NotCompleted: the instrumented
    evaluation returns the same value and no recorded main() argument is a
    NotCompleted *)
Theorem call_log_same_value : forall chain v, fst (call_log chain v) = call chain v.
Proof. exact call_log_fst. Qed.

Theorem main_never_sees_not_completed : forall chain,
  (forall s, In s chain -> s_skip s = true) ->
  forall v e, In e (snd (call_log chain v)) -> is_nc (snd e) = false.
Proof. exact call_log_args_not_nc. Qed.

(** no stage is invoked twice, stages are invoked in composition order, and
    the invocations stop at the first failure: the recorded main() calls are a
    prefix of the stage list — all of it exactly when the input completes *)
Theorem invocations_are_a_prefix : forall stages v,
  stages <> [] -> all_skip stages ->
  (forall s, In s (tl stages) -> s_kind s <> LOADER) ->
  is_nc v = false -> v <> VNone ->
  exists k, (k <= length stages)%nat /\
    map fst (snd (call_log (rev stages) v)) = map s_name (firstn k stages) /\
    (is_nc (fst (call_log (rev stages) v)) = false -> k = length stages).
Proof. exact call_log_prefix. Qed.

(** duplicate identifiers are refused before anything is processed *)
Theorem duplicate_identifier_rejected : forall K st seen m r id,
  unique_id_of (source_of m) = Some id -> In id (map fst seen) -> collect K st seen (m :: r) = Exc E_Value.
Proof. exact collect_rejects_duplicate. Qed.

(* ------------------------------------------------------------------ the output store *)

(** Writing the (identifier, result) records of a run in ANY order leaves the
    dictionary of the specification — [final_done] / [final_nc] do not mention
    the order.  [K] is the store kind, [U] a set of identifiers on which it
    behaves like a dictionary ([good_kind]); [ready]: unique identifiers inside
    [U], none completed yet, store writable. *)
Theorem store_is_spec_dictionary : forall K U, good_kind K U -> forall rs st,
  ready K U st rs ->
  puts K st rs = Ok (mkstore (final_done K st rs) (final_nc K st rs) (st_logs st) (st_mode st)).
Proof. exact puts_final. Qed.

Theorem schedule_independent : forall K U, good_kind K U -> forall st rs rs',
  ready K U st rs -> Permutation rs rs' ->
  exists st1 st2, puts K st rs = Ok st1 /\ puts K st rs' = Ok st2 /\
    Permutation (st_done st1) (st_done st2) /\ Permutation (st_nc st1) (st_nc st2) /\
    st_logs st1 = st_logs st2 /\ st_mode st1 = st_mode st2.
Proof. exact puts_any_order. Qed.

(** exactly one record per input: a completed input has its completed record
    (content = the value of the composed function) and no not-completed one ... *)
Theorem exactly_one_record_completed : forall K U, good_kind K U -> forall st rs a d,
  ready K U st rs -> In (a, d) rs -> is_nc d = false ->
  In (k_fname K a, (a, d)) (final_done K st rs) /\ ~ In (k_ncname K a) (map fst (final_nc K st rs)).
Proof. exact final_completed_once. Qed.

(** ... a failed input has its not-completed record and no completed one ... *)
Theorem exactly_one_record_failed : forall K U, good_kind K U -> forall st rs a d,
  ready K U st rs -> In (a, d) rs -> is_nc d = true ->
  In (k_ncname K a, d) (final_nc K st rs) /\ ~ In (k_fname K a) (map fst (final_done K st rs)).
Proof. exact final_failed_once. Qed.

(** ... and no name occurs twice *)
Theorem no_duplicate_completed : forall K U, good_kind K U -> forall st rs,
  ready K U st rs -> NoDup (done_names st) -> NoDup (map fst (final_done K st rs)).
Proof. exact final_done_nodup. Qed.

Theorem no_duplicate_not_completed : forall K U, good_kind K U -> forall st rs,
  ready K U st rs -> NoDup (map fst (st_nc st)) ->
  (forall r, In r rs -> failed_rec r = true -> ~ In (k_ncname K (fst r)) (map fst (st_nc st))) ->
  NoDup (map fst (final_nc K st rs)).
Proof. exact final_nc_nodup. Qed.

(** apply_to itself (identifier derivation, duplicate check, skipping of
    completed members, proxies, the loop over as_completed): serial execution
    leaves exactly the specification dictionary over the records
    (identifier, composed function called on that input alone) ... *)
Theorem apply_to_serial_is_spec : forall K U, good_kind K U -> forall chain st inputs ids,
  chain <> [] -> inputs <> [] -> st_mode st <> 0 ->
  map (fun m => unique_id_of (source_of m)) inputs = map Some ids ->
  NoDup ids -> incl ids U ->
  (forall m, In m inputs -> plain_input chain m) ->
  apply_to K chain st inputs None false =
    Ok (mkstore (final_done K st (records_of chain (todo_of K st ids inputs)))
                (final_nc K st (records_of chain (todo_of K st ids inputs))) (st_logs st) (st_mode st)).
Proof. exact apply_to_serial. Qed.

(** ... and so does every completion order delivered by as_completed *)
Theorem apply_to_any_completion_order : forall K U, good_kind K U -> forall chain st inputs ids,
  chain <> [] -> inputs <> [] -> st_mode st <> 0 ->
  map (fun m => unique_id_of (source_of m)) inputs = map Some ids ->
  NoDup ids -> incl ids U ->
  (forall m, In m inputs -> plain_input chain m) ->
  forall sched, Permutation sched (seq 0 (length (todo_of K st ids inputs))) ->
  exists st', apply_to K chain st inputs (Some sched) false = Ok st' /\
    Permutation (st_done st') (final_done K st (records_of chain (todo_of K st ids inputs))) /\
    Permutation (st_nc st') (final_nc K st (records_of chain (todo_of K st ids inputs))) /\
    st_logs st' = st_logs st /\ st_mode st' = st_mode st.
Proof. exact apply_to_any_schedule. Qed.

(** logging changes nothing but the log count *)
Theorem logging_only_adds_a_log : forall K chain st inputs sched,
  apply_to K chain st inputs sched true =
    match apply_to K chain st inputs sched false with
    | Exc e => Exc e
    | Ok st' =>
        match check_writable K st' s_dotlog with
        | Some e => Exc e
        | None => Ok (mkstore (st_done st') (st_nc st') (st_logs st' + 1) (st_mode st'))
        end
    end.
Proof. exact apply_to_logging. Qed.

(** any partition of the work list into worker chunks, delivered in any interleaving *)
Theorem chunking_irrelevant : forall K U, good_kind K U -> forall chain st inputs ids,
  chain <> [] -> inputs <> [] -> st_mode st <> 0 ->
  map (fun m => unique_id_of (source_of m)) inputs = map Some ids ->
  NoDup ids -> incl ids U ->
  (forall m, In m inputs -> plain_input chain m) ->
  forall (chunks : list (list item)) its',
  Permutation (concat chunks) (proxy_input (map snd (todo_of K st ids inputs))) ->
  Permutation its' (concat (map (map (source_wrapped chain)) chunks)) ->
  exists st', write_results K st its' = Ok st' /\
    Permutation (st_done st') (final_done K st (records_of chain (todo_of K st ids inputs))) /\
    Permutation (st_nc st') (final_nc K st (records_of chain (todo_of K st ids inputs))) /\
    st_logs st' = st_logs st /\ st_mode st' = st_mode st.
Proof. exact chunking_irrelevant_full. Qed.

(** the hypotheses are satisfiable: the plain dictionary is good on every set
    of non-empty identifiers, the directory store on the sample identifiers,
    every non-empty str input is plain, and a concrete 3-input run with one
    failure meets all of them *)
Theorem dictionary_store_is_good : forall U, (forall a, In a U -> a <> []) -> good_kind dict_kind U.
Proof. exact dict_good. Qed.

Theorem good_kind_decidable : forall K U, good_kind_b K U = true -> good_kind K U.
Proof. exact good_kind_b_sound. Qed.

Theorem directory_store_good_on_sample : good_kind dir_kind sample_ids.
Proof. exact dir_good_sample. Qed.

Theorem str_inputs_are_plain : forall chain s, s <> [] -> plain_input chain (VStr s).
Proof. exact plain_str. Qed.

Theorem hypotheses_met_by_a_run :
  sample_chain <> [] /\ sample_inputs <> [] /\ st_mode st0 <> 0 /\
  map (fun m => unique_id_of (source_of m)) sample_inputs = map Some (firstn 3 sample_ids) /\
  NoDup (firstn 3 sample_ids) /\ incl (firstn 3 sample_ids) sample_ids /\
  (forall m, In m sample_inputs -> plain_input sample_chain m) /\
  exists st', apply_to dir_kind sample_chain st0 sample_inputs (Some [2;0;1]%nat) false = Ok st'
              /\ length (st_done st') = 2%nat /\ length (st_nc st') = 1%nat.
Proof. exact sample_run_meets_hypotheses. Qed.

(* ------------------------------------------------------------------ where the faithful model violates the unguarded statement *)

(** full statement (no hypothesis on the identifiers or the inputs): kept visible *)
Definition stmt_exactly_one_unguarded : Prop :=
  forall K chain st inputs sched, chain <> [] -> inputs <> [] -> st_mode st <> 0 ->
  NoDup (map (fun m => unique_id_of (source_of m)) inputs) ->
  exists st', apply_to K chain st inputs sched false = Ok st' /\
    (length (st_done st') + length (st_nc st') >= length (st_done st) + length inputs)%nat.

(** DataStoreDirectory: identifiers "ba" (fails) and "a" (completes): the
    not-completed record of "ba" is deleted when "a" is written after it *)
Theorem dir_store_suffix_ids_refuted :
  exists rs rs' s1 s2, Permutation rs rs' /\ NoDup (map fst rs) /\
    puts dir_kind st0 rs = Ok s1 /\ puts dir_kind st0 rs' = Ok s2 /\
    length (st_nc s1) = 0%nat /\ length (st_nc s2) = 1%nat.
Proof. exact dir_suffix_ids_witness. Qed.

(** DataStoreDirectory: identifiers "g.v1" and "g.v2" are both filed as "g.json"; the second is lost *)
Theorem dir_store_dotted_ids_refuted :
  exists rs s1, NoDup (map fst rs) /\ puts dir_kind st0 rs = Ok s1 /\ length rs = 2%nat /\
    length (st_done s1) = 1%nat /\ length (st_nc s1) = 0%nat.
Proof. exact dir_dotted_ids_witness. Qed.

(** a failing input that already has a not-completed record appears twice in the live member list *)
Theorem rerun_live_duplicate_refuted :
  exists st rs s1, ready dict_kind [[97]] st rs /\ puts dict_kind st rs = Ok s1 /\ ~ NoDup (map fst (st_nc s1)).
Proof. exact rerun_live_duplicate_witness. Qed.

(** falsy inputs are dropped without a record *)
Theorem falsy_input_dropped_refuted :
  exists chain inputs st', NoDup (map (fun m => unique_id_of (source_of m)) inputs) /\
    apply_to dict_kind chain st0 inputs None false = Ok st' /\
    length inputs = 2%nat /\ (length (st_done st') + length (st_nc st') = 1)%nat.
Proof. exact falsy_input_dropped_witness. Qed.

(** an input with its own .source is not proxied: a result without source makes apply_to raise *)
Theorem bare_input_raises_refuted :
  exists chain inputs, apply_to dict_kind chain st0 inputs None false = Exc E_Type.
Proof. exact bare_input_raises_witness. Qed.

(* ------------------------------------------------------------------ the repaired directory store (exact-name retirement) *)

(** [dir_kind_fixed] is DataStoreDirectory after the repair of drop_not_completed / __contains__.
    All theorems above are stated for any store kind [K] with [good_kind K U]; for the repaired
    store this now includes identifiers that are suffixes of one another: *)
Theorem repaired_directory_store_good_on_suffix_ids : good_kind dir_kind_fixed suffix_ids.
Proof. exact dir_fixed_good_suffix_ids. Qed.

Theorem repaired_directory_store_good_on_sample : good_kind dir_kind_fixed sample_ids.
Proof. exact dir_fixed_good_sample. Qed.

Theorem pinned_directory_store_not_good_on_suffix_ids : good_kind_b dir_kind suffix_ids = false.
Proof. exact dir_pinned_not_good_suffix_ids. Qed.

Theorem repaired_store_keeps_both_records :
  exists s1 s2,
    puts dir_kind_fixed st0 [([98;97], an_nc); ([97], an_obj)] = Ok s1 /\
    puts dir_kind_fixed st0 [([97], an_obj); ([98;97], an_nc)] = Ok s2 /\
    length (st_nc s1) = 1%nat /\ length (st_nc s2) = 1%nat /\ length (st_done s1) = 1%nat /\ length (st_done s2) = 1%nat.
Proof. exact dir_fixed_suffix_ids_both_orders. Qed.

(* ================================================================== the CURRENT (repaired) code *)

(** [apply_to_v repaired], [proxy_input_v repaired], [write_nc_v repaired] are the code after the repairs of
    _proxy_input (only None / empty str skipped), _apply_to (every input in a source_proxy) and of the store writes
    (an existing member is replaced, never listed twice).  The theorems below need NO hypothesis on the inputs beyond
    unique identifiers: inputs of any truthiness, inputs carrying their own .source, results that lose their source
    ([plain_input] is gone), and failing inputs that already have a not-completed record. *)
Theorem repaired_store_is_spec_dictionary : forall K U, good_kind K U -> forall rs st,
  ready K U st rs ->
  puts_r K st rs = Ok (mkstore (final_done K st rs) (final_nc_r K st rs) (st_logs st) (st_mode st)).
Proof. exact puts_r_final. Qed.

Theorem repaired_schedule_independent : forall K U, good_kind K U -> forall st rs rs',
  ready K U st rs -> Permutation rs rs' ->
  exists st1 st2, puts_r K st rs = Ok st1 /\ puts_r K st rs' = Ok st2 /\
    Permutation (st_done st1) (st_done st2) /\ Permutation (st_nc st1) (st_nc st2) /\
    st_logs st1 = st_logs st2 /\ st_mode st1 = st_mode st2.
Proof. exact puts_r_any_order. Qed.

Theorem repaired_exactly_one_record_completed : forall K U, good_kind K U -> forall st rs a d,
  ready K U st rs -> In (a, d) rs -> is_nc d = false ->
  In (k_fname K a, (a, d)) (final_done K st rs) /\ ~ In (k_ncname K a) (map fst (final_nc_r K st rs)).
Proof. exact final_r_completed_once. Qed.

Theorem repaired_exactly_one_record_failed : forall K U, good_kind K U -> forall st rs a d,
  ready K U st rs -> In (a, d) rs -> is_nc d = true ->
  In (k_ncname K a, d) (final_nc_r K st rs) /\ ~ In (k_fname K a) (map fst (final_done K st rs)).
Proof. exact final_r_failed_once. Qed.

(** no freshness hypothesis any more: a failing input that already had a not-completed record keeps ONE *)
Theorem repaired_no_duplicate_not_completed : forall K U, good_kind K U -> forall st rs,
  ready K U st rs -> NoDup (map fst (st_nc st)) -> NoDup (map fst (final_nc_r K st rs)).
Proof. exact final_nc_r_nodup. Qed.

Theorem repaired_inputs_all_proxied_none_dropped : forall l,
  proxy_input_v repaired true l = map (fun e => Wrapped e e) l.
Proof. exact proxy_input_repaired. Qed.

Theorem repaired_apply_to_serial_is_spec : forall K U, good_kind K U -> forall chain st inputs ids,
  chain <> [] -> inputs <> [] -> st_mode st <> 0 ->
  map (fun m => unique_id_of (source_of m)) inputs = map Some ids ->
  NoDup ids -> incl ids U ->
  apply_to_v repaired K chain st inputs None false =
    Ok (mkstore (final_done K st (records_of chain (todo_of K st ids inputs)))
                (final_nc_r K st (records_of chain (todo_of K st ids inputs))) (st_logs st) (st_mode st)).
Proof. exact apply_to_r_serial. Qed.

Theorem repaired_apply_to_any_completion_order : forall K U, good_kind K U -> forall chain st inputs ids,
  chain <> [] -> inputs <> [] -> st_mode st <> 0 ->
  map (fun m => unique_id_of (source_of m)) inputs = map Some ids ->
  NoDup ids -> incl ids U ->
  forall sched, Permutation sched (seq 0 (length (todo_of K st ids inputs))) ->
  exists st', apply_to_v repaired K chain st inputs (Some sched) false = Ok st' /\
    Permutation (st_done st') (final_done K st (records_of chain (todo_of K st ids inputs))) /\
    Permutation (st_nc st') (final_nc_r K st (records_of chain (todo_of K st ids inputs))) /\
    st_logs st' = st_logs st /\ st_mode st' = st_mode st.
Proof. exact apply_to_r_any_schedule. Qed.

Theorem repaired_chunking_irrelevant : forall K U, good_kind K U -> forall chain st inputs ids,
  chain <> [] -> inputs <> [] -> st_mode st <> 0 ->
  map (fun m => unique_id_of (source_of m)) inputs = map Some ids ->
  NoDup ids -> incl ids U ->
  forall (chunks : list (list item)) its',
  Permutation (concat chunks) (proxy_input_v repaired true (map snd (todo_of K st ids inputs))) ->
  Permutation its' (concat (map (map (source_wrapped chain)) chunks)) ->
  exists st', write_results_v repaired K st its' = Ok st' /\
    Permutation (st_done st') (final_done K st (records_of chain (todo_of K st ids inputs))) /\
    Permutation (st_nc st') (final_nc_r K st (records_of chain (todo_of K st ids inputs))) /\
    st_logs st' = st_logs st /\ st_mode st' = st_mode st.
Proof. exact chunking_r_irrelevant_full. Qed.

Theorem repaired_logging_only_adds_a_log : forall V K chain st inputs sched,
  apply_to_v V K chain st inputs sched true =
    match apply_to_v V K chain st inputs sched false with
    | Exc e => Exc e
    | Ok st' =>
        match check_writable K st' s_dotlog with
        | Some e => Exc e
        | None => Ok (mkstore (st_done st') (st_nc st') (st_logs st' + 1) (st_mode st'))
        end
    end.
Proof. exact apply_to_v_logging. Qed.

(** non-vacuity, and the contrast with the pinned code on the same inputs: a falsy object and an object with its own
    .source whose stage returns a NotCompleted without source — one record each under the repaired code; dropped,
    respectively TypeError, under the pinned code *)
Theorem repaired_accounts_for_falsy_and_bare_inputs :
  map (fun m => unique_id_of (source_of m)) awkward_inputs = map Some [[111;49]; [111;50]] /\
  (exists st', apply_to_v repaired dict_kind nosrc_chain st0 awkward_inputs (Some [1;0]%nat) false = Ok st'
               /\ length (st_done st') = 1%nat /\ length (st_nc st') = 1%nat) /\
  (exists st', apply_to dict_kind nosrc_chain st0 (firstn 1 awkward_inputs) None false = Ok st'
               /\ length (st_done st') = 0%nat /\ length (st_nc st') = 0%nat) /\
  apply_to dict_kind nosrc_chain st0 (tl awkward_inputs) None false = Exc E_Type.
Proof. exact repaired_accounts_for_awkward_inputs. Qed.

Theorem repaired_rerun_replaces_not_completed :
  exists s1, puts_r dict_kind (mkstore [] [([97], an_nc)] 0 2) [([97], VNC s_ERROR [108] [110;101;119] None)] = Ok s1 /\
    st_nc s1 = [([97], VNC s_ERROR [108] [110;101;119] None)].
Proof. exact repaired_rerun_no_duplicate. Qed.
