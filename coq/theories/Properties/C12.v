(** C12 — Translation and complementing follow the genetic-code tables.
    Only theorem statements; every proof is [exact <lemma>].

    The tables ([old_codes], [new_codes], [new_plus_tables], [new_minus_tables], the IUPAC
    ambiguity / complement tables) are regenerated from the current cogent3 source into
    gen/GCTables.v on every run; [ncbi_codes] is the frozen NCBI reference.  [bases] is T C A G;
    [canon_str s] says every symbol of [s] is one of them.  "Every code" = every row of the
    regenerated table (27 on the pinned tree); the finite facts are decided by enumeration
    (27 codes x 64 codons, 27 x 17^3 alphabet words, 15 IUPAC symbols x 2 moltypes x 2
    implementations), everything about sequences is by induction over sequences of ANY length. *)
From CG3 Require Import Lib.PyZ Lib.Val Model.GeneticCode Spec.GeneticCodeSpec Proofs.GeneticCodeProofs
  Proofs.GeneticCodeDegenDefs Proofs.GeneticCodeCollProofs Proofs.GeneticCodeDegenProofs.
From CG3gen Require Import GCTables.

(* ------------------------------------------------------------------ the tables *)

(** old implementation = new implementation = NCBI (ids, amino-acid lines, start-codon lines) *)
Theorem old_eq_new : old_codes = new_codes.
Proof. exact old_eq_new_lemma. Qed.

Theorem new_eq_ncbi : new_codes = ncbi_codes.
Proof. exact new_eq_ncbi_lemma. Qed.

(** both implementations enumerate codons in the order of NCBI's Base1/Base2/Base3 lines *)
Theorem codon_order_is_ncbi : old_bases = bases /\ canon_new = bases /\ ncbi_header_words = product3 bases.
Proof. exact codon_order_lemma. Qed.

(** 64 amino acids and 64 start flags per code, no "-"/"X" in a code line, distinct ids *)
Theorem tables_wellformed : tables_wf ncbi_codes = true /\ tables_wf new_codes = true /\ tables_wf old_codes = true.
Proof. exact tables_wf_lemma. Qed.

(** the byte tables the new GeneticCode objects translate with (dumped from the live objects)
    are the converter tables the model builds from k-mer indices of codons / anticodons *)
Theorem converter_tables_match :
  tables_of plus_src = new_plus_tables /\ tables_of minus_src = new_minus_tables.
Proof. exact converter_tables_lemma. Qed.

(** gc[codon], old and new objects, every code, every codon = the NCBI column *)
Theorem getitem_is_ncbi_column : forall v id aa st a b c,
  In (id, aa, st) new_codes -> canonical a -> canonical b -> canonical c ->
  getitem v aa [a; b; c] = Ok (spec_lookup (ncbi_tbl id) [a; b; c]).
Proof. exact getitem_spec_lemma. Qed.

Theorem is_stop_is_ncbi_star : forall v id aa st a b c,
  In (id, aa, st) new_codes -> canonical a -> canonical b -> canonical c ->
  is_stop v aa [a; b; c] = Ok (spec_lookup (ncbi_tbl id) [a; b; c] =? star).
Proof. exact is_stop_spec_lemma. Qed.

(* ------------------------------------------------------------------ translation, every length, every frame *)

(** plus strand: k-mer index path + converter = codon-by-codon NCBI lookup of s[start:] *)
Theorem translate_plus_spec : forall id aa st s start,
  In (id, aa, st) new_codes -> canon_str s -> 0 <= start ->
  translate aa s start false = frame_plus (ncbi_tbl id) s (Z.to_nat start).
Proof. exact translate_plus_spec_lemma. Qed.

(** minus strand (repaired code): anticodon converter + reversal = codon-by-codon lookup of
    rc(s)[start:], whatever len(s) mod 3 *)
Theorem translate_minus_spec : forall id aa st s start,
  In (id, aa, st) new_codes -> canon_str s -> 0 <= start ->
  translate aa s start true = frame_minus (ncbi_tbl id) s (Z.to_nat start).
Proof. exact translate_minus_spec_lemma. Qed.

(** rc translation = translation of the reverse-complemented string *)
Theorem translate_rc_is_translate_of_rc : forall id aa st s start,
  In (id, aa, st) new_codes -> canon_str s -> 0 <= start ->
  translate aa s start true = translate aa (rc_pure dna_comp_new s) start false.
Proof. exact translate_rc_is_translate_of_rc_lemma. Qed.

(** the code as it stands before repair C12-1 labels minus-strand frames by the PLUS-strand
    offset: translate(s, start, rc=True) is frame (len(s) - start) mod 3 of the reverse complement *)
Theorem translate_pinned_minus_frame : forall id aa st s start,
  In (id, aa, st) new_codes -> canon_str s -> 0 <= start < 3 -> start <= zlen s ->
  translate_pinned aa s start true
  = frame_minus (ncbi_tbl id) s (Z.to_nat ((zlen s - start) mod 3)).
Proof. exact translate_pinned_minus_frame_lemma. Qed.

(** ... hence the requested frame only under a length guard ... *)
Theorem translate_pinned_minus_guarded : forall id aa st s start,
  In (id, aa, st) new_codes -> canon_str s -> 0 <= start ->
  (zlen s - start) mod 3 = start ->
  translate_pinned aa s start true = frame_minus (ncbi_tbl id) s (Z.to_nat start).
Proof. exact translate_pinned_minus_guarded_lemma. Qed.

(** ... and another frame without it (finding C12-1) *)
Theorem translate_pinned_minus_refuted :
  exists id aa st s start,
    In (id, aa, st) new_codes /\ canon_str s /\ 0 <= start < 3 /\
    translate_pinned aa s start true <> frame_minus (ncbi_tbl id) s (Z.to_nat start).
Proof. exact translate_pinned_minus_refuted_lemma. Qed.

(** old GeneticCode.translate = the same specification (it raises ValueError when start >= len > 0) *)
Theorem translate_old_spec : forall id aa st s start,
  In (id, aa, st) old_codes -> canon_str s -> 0 <= start -> (s = [] \/ start < zlen s) ->
  translate_old aa s start = Ok (frame_plus (ncbi_tbl id) s (Z.to_nat start)).
Proof. exact translate_old_spec_lemma. Qed.

(** entry points agree: old object on s / on DNA.rc(s) vs new object with rc=False / rc=True *)
Theorem old_new_agree_plus : forall id aa st s start,
  In (id, aa, st) new_codes -> canon_str s -> 0 <= start -> (s = [] \/ start < zlen s) ->
  translate_old aa s start = Ok (translate aa s start false).
Proof. exact old_new_agree_plus_lemma. Qed.

Theorem old_new_agree_minus : forall id aa st s start,
  In (id, aa, st) new_codes -> canon_str s -> 0 <= start -> (s = [] \/ start < zlen s) ->
  translate_old aa (rc_pure dna_comp_old s) start = Ok (translate aa s start true).
Proof. exact old_new_agree_minus_lemma. Qed.

(** six-frame translation, new and old objects *)
Theorem sixframes_spec : forall id aa st s,
  In (id, aa, st) new_codes -> canon_str s ->
  map snd (sixframes aa s) = six_frames_spec (ncbi_tbl id) s /\
  map fst (sixframes aa s) = [(false, 0); (false, 1); (false, 2); (true, 0); (true, 1); (true, 2)].
Proof. exact sixframes_spec_lemma. Qed.

Theorem sixframes_old_spec : forall id aa st s,
  In (id, aa, st) new_codes -> canon_str s -> 2 < zlen s ->
  sixframes_old aa DNA s = Ok (six_frames_spec (ncbi_tbl id) s).
Proof. exact sixframes_old_spec_lemma. Qed.

(** a codon holding a symbol of the DNA alphabet that is not a base: "-" if bases and gaps only,
    otherwise "X"; every code, both strands (17^3 words x every code) *)
Theorem incomplete_codon : forall id aa st a b c,
  In (id, aa, st) new_codes -> In a dna_dga_new -> In b dna_dga_new -> In c dna_dga_new ->
  forallb canonicalb [a; b; c] = false ->
  plus_aa aa [a; b; c] = expected_incomplete [a; b; c] /\ minus_aa aa [a; b; c] = expected_incomplete [a; b; c].
Proof. exact incomplete_codon_lemma. Qed.

(** ANY valid DNA string (bases, IUPAC ambiguity letters, "-", "?"), any length, any frame:
    a codon of bases is looked up in the NCBI table, a codon of bases and gaps is "-", any other
    codon is "X"; minus strand = the same reading of the reverse-complemented string *)
Theorem translate_plus_general : forall id aa st s start,
  In (id, aa, st) new_codes -> valid_dna s -> 0 <= start ->
  translate aa s start false
  = map (general_lookup (ncbi_tbl id)) (codons (skipn (Z.to_nat start) s)).
Proof. exact translate_plus_general_lemma. Qed.

Theorem translate_minus_general : forall id aa st s start,
  In (id, aa, st) new_codes -> valid_dna s -> 0 <= start ->
  translate aa s start true
  = map (general_lookup (ncbi_tbl id)) (codons (skipn (Z.to_nat start) (rc_pure dna_comp_new s))).
Proof. exact translate_minus_general_lemma. Qed.

(* ------------------------------------------------------------------ the byte width of the index array (finding C12-4) *)

(** [translate_w fm fd] is [GeneticCode.translate] with the numpy dtype of the k-mer index array
    and [tobytes()] made explicit.  [fd = true]: dtype from the size of the codon alphabet
    (repair C12-4); then it IS the width-free model all theorems above speak about, for every
    length ([fm] = with / without the minus-strand repair C12-1). *)
Theorem translate_with_dtype_repair_all_lengths : forall fm aa s start rc,
  valid_dna s ->
  translate_w fm true aa s start rc = (if fm then translate else translate_pinned) aa s start rc.
Proof. exact translate_w_fixed_lemma. Qed.

(** [fd = false]: dtype from the NUMBER of codons (the code before the repair): right for every
    sequence shorter than 768 symbols (fewer than 256 codons in every frame), whatever the symbols ... *)
Theorem translate_dtype_pinned_guarded : forall fm aa s start rc,
  zlen s < 768 -> translate_w fm false aa s start rc = translate_w fm true aa s start rc.
Proof. exact translate_w_guarded_lemma. Qed.

(** ... and wrong at 768 (ATG x 256: two bytes per codon reach bytes.translate) *)
Theorem translate_dtype_pinned_refuted :
  exists id aa st s,
    In (id, aa, st) new_codes /\ canon_str s /\ zlen s = 768 /\
    (forall fm, translate_w fm false aa s 0 false <> frame_plus (ncbi_tbl id) s 0).
Proof. exact translate_w_unrepaired_refuted_lemma. Qed.

(* ------------------------------------------------------------------ stop codons: trimmed, kept or rejected *)

(** Sequence.get_translation(incomplete_ok, include_stop, trim_stop) on a canonical sequence of ANY
    length (with repairs C12-2 and, for the new objects, C12-4): [stop_spec] = reject an incomplete sequence when trimming strictly;
    drop a terminal stop codon when trimming; reject any remaining stop unless include_stop;
    otherwise the codon-by-codon translation.  [ropt] forgets the exception class.
    new objects trim whenever trim_stop; old objects only when not include_stop. *)
Theorem get_translation_new_stop_spec : forall id aa st s ok inc trim,
  In (id, aa, st) new_codes -> canon_str s ->
  ropt (seq_get_translation_new true true aa s ok inc trim)
  = stop_spec (ncbi_tbl id) (eff_trim_new inc trim) inc ok s.
Proof. exact seq_get_translation_new_spec_lemma. Qed.

Theorem get_translation_old_stop_spec : forall id aa st s ok inc trim,
  In (id, aa, st) new_codes -> canon_str s ->
  ropt (seq_get_translation_old true aa s ok inc trim)
  = stop_spec (ncbi_tbl id) (eff_trim_old inc trim) inc ok s.
Proof. exact seq_get_translation_old_spec_lemma. Qed.

(** finding C12-2: before the repair the empty sequence raised KeyError in has_terminal_stop *)
Theorem empty_sequence_pinned_refuted :
  exists aa, trim_stop_codon false New aa [] false = Err E_Key /\ trim_stop_codon false Old aa [] false = Err E_Key
             /\ trim_stop_codon true New aa [] false = Ok [].
Proof. exact empty_sequence_pinned_refuted_lemma. Qed.

(** finding C12-3: before the repair an alignment ignored trim_stop=False *)
Theorem alignment_trim_pinned_refuted :
  exists aa rows row,
    In row rows /\
    aln_get_translation_old true false aa rows false false false = Ok [[75]] /\
    seq_get_translation_old true aa row false false false = Err E_Alpha /\
    aln_get_translation_old true true aa rows false false false = Err E_Alpha.
Proof. exact alignment_trim_pinned_refuted_lemma. Qed.

(* ------------------------------------------------------------------ collections and alignments *)

(** SequenceCollection.get_translation, new and old objects, every list of canonical sequences (ANY
    lengths), every code, all 8 option combinations: the rows are translated one by one exactly
    as Sequence.get_translation does ([stop_spec] per row, same order, same number of rows), and
    the request is rejected as a whole iff one row is ([all_or_none]).  (The model is positional:
    names are the dictionary keys the implementation carries along; the check compares them.) *)
Theorem collection_new_is_rowwise : forall id aa st seqs ok inc trim,
  In (id, aa, st) new_codes -> canon_rows seqs ->
  ropt (coll_get_translation_new true true aa seqs ok inc trim)
  = collection_spec (ncbi_tbl id) (eff_trim_new inc trim) inc ok seqs.
Proof. exact coll_new_spec_lemma. Qed.

Theorem collection_old_is_rowwise : forall id aa st seqs ok inc trim,
  In (id, aa, st) new_codes -> canon_rows seqs ->
  ropt (coll_get_translation_old true true aa seqs ok inc trim)
  = collection_spec (ncbi_tbl id) (eff_trim_old inc trim) inc ok seqs.
Proof. exact coll_old_spec_lemma. Qed.

(** old Alignment / ArrayAlignment.get_translation.  Guard, exactly: every row is a concatenation
    of triplets, each a codon of bases or "---" ([rows_wf]: codon-aligned gaps), and all rows
    have the same number [n] of triplets.  Then, for every code and all 8 option combinations:
    when trimming (trim_stop and not include_stop) EVERY row has its last residue codon replaced
    by "---" if it is a stop codon ([trim_row], whatever the other rows end in; the regular
    expression can match nowhere else); each row translates triplet by triplet, "---" to "-";
    a remaining stop codon rejects the request unless include_stop; incomplete_ok is irrelevant
    under the guard; rows keep their order. *)
Theorem alignment_old_is_rowwise : forall id aa st wss n ok inc trim,
  In (id, aa, st) new_codes -> rows_wf wss -> (forall ws, In ws wss -> length ws = n) ->
  ropt (aln_get_translation_old true true aa (map (@concat Z) wss) ok inc trim)
  = alignment_spec (ncbi_tbl id) (eff_trim_old inc trim) inc wss.
Proof. exact aln_old_spec_lemma. Qed.

(** ... and the translated rows have equal length [n], one row per input row *)
Theorem alignment_translation_rows_equal_length : forall tbl trim inc wss n peps,
  (forall ws, In ws wss -> length ws = n) ->
  alignment_spec tbl trim inc wss = Some peps ->
  Forall (fun p => length p = n) peps /\ length peps = length wss.
Proof. exact alignment_spec_lengths. Qed.

(** ... and every row is the Sequence-level translation ([stop_spec], the same function as for
    Sequence and SequenceCollection) of that row's residues, with "-" kept where the row has gap
    triplets and where its trimmed stop codon was: all entry points agree on the residues *)
Theorem alignment_row_is_sequence_level : forall id aa st eff inc ws,
  In (id, aa, st) new_codes -> row_wf ws ->
  option_map drop_gaps (aln_row_spec (ncbi_tbl id) eff inc ws)
  = stop_spec (ncbi_tbl id) eff inc true (row_residues ws).
Proof. exact aln_row_is_sequence_level. Qed.

(** the regular expression of trim_stop_codons on a row of aligned triplets *)
Theorem alignment_regex_is_last_codon : forall id aa st ws,
  In (id, aa, st) new_codes -> row_wf ws ->
  regex_trim aa (concat ws) = concat (trim_row (ncbi_tbl id) ws).
Proof. exact regex_trim_row. Qed.

(** six frames: old object, new object and app.translate.translate_frames agree (sequences of
    at least 3 symbols; below, the old object raises ValueError for frames starting past the end) *)
Theorem sixframes_old_new_agree : forall id aa st s,
  In (id, aa, st) new_codes -> canon_str s -> 2 < zlen s ->
  sixframes_old aa DNA s = Ok (map snd (sixframes aa s)).
Proof. exact sixframes_agree_lemma. Qed.

Theorem translate_frames_spec : forall id aa st s allow_rc,
  In (id, aa, st) new_codes -> canon_str s -> 2 < zlen s ->
  translate_frames aa DNA s allow_rc
  = Ok (if allow_rc then six_frames_spec (ncbi_tbl id) s
        else map (frame_plus (ncbi_tbl id) s) [0; 1; 2]%nat).
Proof. exact translate_frames_spec_lemma. Qed.

(** app.translate.best_frame (require_stop=False): the FIRST frame, in the order +1 +2 +3 -1 -2 -3,
    whose translation (the specification's: minus frames are frames of the reverse complement)
    holds no stop codon other than a terminal one *)
Theorem best_frame_is_first_open_frame : forall id aa st s allow_rc f,
  In (id, aa, st) new_codes -> canon_str s -> 2 < zlen s ->
  best_frame aa s allow_rc = Ok f ->
  let frames := map strip_terminal_stop (spec_frames (ncbi_tbl id) s allow_rc) in
  (1 <= f <= 3 \/ (allow_rc = true /\ -3 <= f <= -1)) /\
  has_stop (nth (frame_index f) frames []) = false /\
  (forall j, (j < frame_index f)%nat -> has_stop (nth j frames []) = true).
Proof. exact best_frame_spec_lemma. Qed.

(** select_translatable (frame chosen by best_frame): the sequence kept is [frame_window s f] -- the
    whole codons of s (f > 0) or of the REVERSE COMPLEMENT of s (f < 0) from offset |f|-1 --,
    minus a terminal stop codon when trimming; it translates to exactly that frame *)
Theorem select_translatable_keeps_the_frame : forall id aa st s allow_rc trim f,
  In (id, aa, st) new_codes -> canon_str s -> 2 < zlen s ->
  best_frame aa s allow_rc = Ok f ->
  select_translatable_one true aa s allow_rc trim
  = if trim then trim_spec (ncbi_tbl id) false (frame_window s f) else Some (frame_window s f).
Proof. exact select_one_spec_lemma. Qed.

Theorem selected_window_translates_to_the_frame : forall tbl s f,
  translate_spec tbl (frame_window s f)
  = (if f <? 0 then frame_minus tbl s (Z.to_nat (Z.abs f - 1)) else frame_plus tbl s (Z.to_nat (Z.abs f - 1))).
Proof. exact frame_window_translation. Qed.

(* ------------------------------------------------------------------ degenerate codons *)

(** old-style Sequence.get_translation on a codon of IUPAC nucleotide symbols: the residues of ALL
    the codons of bases it stands for (stop codons left out unless include_stop), as a set,
    encoded as one amino-acid symbol -- the residue itself when all resolutions agree, B for
    {D,N}, Z for {E,Q}, X otherwise --; rejected when only stop codons are left.
    Finite domain [degen_domain] (1063 codons: all 343 codons over A C G T R Y N, and every codon
    with one of the 15 IUPAC symbols next to two bases) x every code x all option combinations;
    for the first code of the table (the standard code) all 15^3 codons.  The full 15^3 x 27
    enumeration holds too but is too slow for coqchk; the other codons are checked on the
    implementation against the same specification.  (The new-style objects translate every
    such codon to X: theorem incomplete_codon.) *)
Theorem degenerate_codon_is_set_of_resolutions : forall id aa st w ok inc,
  In (id, aa, st) new_codes -> In w degen_domain ->
  ropt (old_codon aa ok inc w) = degenerate_codon_spec (ncbi_tbl id) inc w.
Proof. exact degenerate_codon_lemma. Qed.

Theorem degenerate_codon_standard_code_all : forall a b c ok inc,
  In a iupac_syms -> In b iupac_syms -> In c iupac_syms ->
  ropt (old_codon (snd (fst first_code)) ok inc [a; b; c])
  = degenerate_codon_spec (ncbi_tbl (fst (fst first_code))) inc [a; b; c].
Proof. exact degenerate_codon_first_code_lemma. Qed.

(** a triplet holding "-" next to nucleotide symbols is "?" with incomplete_ok and rejected without *)
Theorem partial_gap_codon : forall id aa st a b c ok inc,
  In (id, aa, st) new_codes -> In a gapped_syms -> In b gapped_syms -> In c gapped_syms ->
  has_gap [a; b; c] = true -> [a; b; c] <> gap_triplet ->
  ropt (old_codon aa ok inc [a; b; c]) = partial_gap_spec ok.
Proof. exact partial_gap_codon_lemma. Qed.

(* ------------------------------------------------------------------ complement, reverse complement *)

(** every complement table (old/new x DNA/RNA) is an involution on EVERY code point *)
Theorem complement_char_involutive : forall v m c,
  comp_char (comp_table v m) (comp_char (comp_table v m) c) = c.
Proof. exact comp_char_involutive. Qed.

Theorem rc_string_involutive : forall v m s, rc_pure (comp_table v m) (rc_pure (comp_table v m) s) = s.
Proof. exact rc_pure_involutive. Qed.

(** the entry points incl. validation of the new moltype: whenever rc(s) is defined, rc(rc(s)) = s *)
Theorem rc_involutive : forall v m s r, rc v m s = Ok r -> rc v m r = Ok s.
Proof. exact rc_involutive_lemma. Qed.

Theorem complement_involutive : forall v m s r, complement v m s = Ok r -> complement v m r = Ok s.
Proof. exact complement_involutive_lemma. Qed.

(** sequence OBJECTS are views: rc() only reverses the view and leaves a pending complement
    ([sview]: what the view yields + the is_reversed flag); str() applies it.  Whatever the view
    state (fresh, reversed, sliced, ...), every table (old/new x DNA/RNA), every symbol:
    str(v.complement()) = complement_string(str(v)), str(v.rc()) = reverse(complement_string(str(v))),
    str(v[a:b]) = str(v)[a:b] -- for one operation and for any chain of operations *)
Theorem view_operation_is_string_operation : forall v m sv o,
  sview_str (comp_table v m) (sview_op (comp_table v m) sv o)
  = str_op (comp_table v m) (sview_str (comp_table v m) sv) o.
Proof. exact sview_op_str_lemma. Qed.

Theorem view_operation_chains_are_string_operations : forall v m sv ops,
  sview_trace (comp_table v m) sv ops = str_trace (comp_table v m) (sview_str (comp_table v m) sv) ops.
Proof. exact sview_trace_lemma. Qed.

(** complement of a pending-rc view: s.rc().complement() shows reverse(s); s.rc().rc() shows s *)
Theorem complement_of_rc_view_is_reverse : forall v m s,
  sview_str (comp_table v m) (sview_op (comp_table v m) (sview_op (comp_table v m) (mk_sview s false) ORc) OComp) = rev s
  /\ sview_str (comp_table v m) (sview_op (comp_table v m) (sview_op (comp_table v m) (mk_sview s false) ORc) ORc) = s.
Proof. exact complement_of_rc_lemma. Qed.

(** on canonical strings rc is Watson-Crick reverse complement *)
Theorem rc_is_watson_crick : forall v s, canon_str s -> rc_pure (comp_table v DNA) s = rc_spec s.
Proof. exact rc_pure_canon. Qed.

(** complement maps each IUPAC symbol to the symbol of the complemented base set; gap and
    missing are fixed *)
Theorem complement_is_set_complement : forall v m x set,
  In (x, set) (iupac_of m) ->
  assocZ (comp_char (comp_table v m) x) (iupac_of m) = Some (as_set (map (comp_base m) set)).
Proof. exact complement_is_set_complement_lemma. Qed.

Theorem complement_fixes_gap_and_missing : forall v m,
  comp_char (comp_table v m) ch_gap = ch_gap /\ comp_char (comp_table v m) ch_miss = ch_miss.
Proof. exact complement_gap_missing_lemma. Qed.

(** the ambiguity dictionaries of the source are the IUPAC table, in both directions *)
Theorem ambiguity_tables_are_iupac : forallb ambig_check all_impl_moltype = true.
Proof. exact ambig_checked. Qed.

(** resolving a symbol and re-encoding the set are mutual inverses, all 15 symbols / all 15
    non-empty base sets, DNA and RNA, old and new *)
Theorem resolve_then_encode : forall v m x set,
  In (x, set) (iupac_of m) ->
  resolve_ambiguity v m [x] = Ok (singletons set) /\
  degenerate_from_seq v m set = Ok x /\ degenerate_from_seq v m (rev set) = Ok x.
Proof. exact resolve_encode_lemma. Qed.

Theorem encode_then_resolve : forall v m set,
  In set (base_sets m) ->
  exists x, degenerate_from_seq v m set = Ok x /\ resolve_ambiguity v m [x] = Ok (singletons set).
Proof. exact every_base_set_has_symbol_lemma. Qed.
