(** C20 — Tables follow the list-of-rows model and survive delimited round-trips.
    Only theorem statements; every proof is [exact <lemma>].

    [rows t] / [hdr t] are what [Table.to_list()] / [Table.header] return for a
    model table [t]; [wf t] says the column store is rectangular with distinct
    names.  The [spec_*] functions (Spec/TableSpec.v) are list comprehensions
    over the list of rows. *)
From Coq Require Import Permutation Sorting.Sorted QArith.
From CG3 Require Import Lib.PyZ Lib.Chars Lib.StableSort Lib.Val Model.Csv Model.Table Model.TableLoad Model.TableRun Model.TableIndex Model.TableCount
     Spec.TableSpec Proofs.TableBase Proofs.CsvProofs Proofs.TableProofs Proofs.TableSortProofs
     Proofs.TableOpsProofs Proofs.TableLoadProofs Proofs.TableIndexProofs Proofs.TableCountProofs.
From CG3 Require Model.View Model.Serial Proofs.TableSerialProofs.
Import CG3.Proofs.TableSerialProofs.
Import ListNotations.
Open Scope Z_scope.

(** ---------------------------------------------------------------- joins *)

(** joined(other, columns_self, columns_other, inner_join=True): the hash join of
    the code (row index of [other], scan of [self], index selection, masked and
    prefixed columns of [other]) is the nested-loop join, in that order,
    duplicate keys included, keys compared with Python equality (True == 1);
    natural / one-sided / explicit key columns all go through [join_keys]. *)
Theorem inner_join_eq_nested_loop : forall self other cs co prefix ks ko,
  wf self -> wf other ->
  join_keys self other cs co = Ok (ks, ko) ->
  ks <> [] -> ko <> [] -> NoDup ks -> NoDup ko ->
  incl ks (hdr self) -> incl ko (hdr other) -> hdr self <> [] ->
  NoDup (spec_join_header (hdr self) (hdr other) ko prefix) ->
  exists t,
    joined self other cs co true prefix = Ok t /\ wf t /\
    hdr t = spec_join_header (hdr self) (hdr other) ko prefix /\
    rows t = spec_inner_join (hdr self) (rows self) (hdr other) (rows other) ks ko.
Proof. exact joined_inner_nested_loop. Qed.

(** natural join (no key columns given): the join on the same-named columns, in
    self's order, whatever their order in other *)
Theorem natural_join_keys : forall self other,
  join_keys self other None None =
  Ok (filter (fun c => mem_str c (hdr other)) (hdr self), filter (fun c => mem_str c (hdr other)) (hdr self)).
Proof. exact join_keys_natural. Qed.

Theorem natural_join_eq_nested_loop : forall self other prefix,
  wf self -> wf other -> hdr self <> [] ->
  let ks := filter (fun c => mem_str c (hdr other)) (hdr self) in
  ks <> [] ->
  NoDup (spec_join_header (hdr self) (hdr other) ks prefix) ->
  exists t,
    joined self other None None true prefix = Ok t /\ wf t /\
    hdr t = spec_join_header (hdr self) (hdr other) ks prefix /\
    rows t = spec_inner_join (hdr self) (rows self) (hdr other) (rows other) ks ks.
Proof. exact natural_join_same_named. Qed.

Theorem explicit_join_keys : forall self other a b,
  length a = length b -> join_keys self other (Some a) (Some b) = Ok (a, b).
Proof. exact join_keys_explicit. Qed.

(** cross join = the product of the row lists, for every pair of tables (a table
    without rows gives the empty table) *)
Theorem cross_join_spec : forall self other prefix,
  wf self -> wf other -> hdr self <> [] ->
  NoDup (hdr self ++ prefixed prefix (hdr other)) ->
  exists t,
    cross_join self other prefix = Ok t /\ wf t /\
    hdr t = hdr self ++ prefixed prefix (hdr other) /\
    rows t = spec_cross_join (rows self) (rows other).
Proof. exact cross_join_product. Qed.

(** joined(other, inner_join=False, col_prefix=p): the same, with the prefix "right_" whatever p is *)
Theorem joined_cross_spec : forall self other prefix,
  wf self -> wf other -> hdr self <> [] ->
  NoDup (hdr self ++ prefixed right_ (hdr other)) ->
  exists t,
    joined self other None None false prefix = Ok t /\ wf t /\
    hdr t = hdr self ++ prefixed right_ (hdr other) /\
    rows t = spec_cross_join (rows self) (rows other).
Proof. exact joined_cross_product. Qed.

(** ---------------------------------------------------------------- sorting *)

(** the two reversal devices of the code reverse the order exactly: negation of
    ints, and the negated rank among the distinct values of the column
    (numpy.unique inverse index) for every other column -- strings (proper
    prefixes included) and bools (False < True) *)
Theorem reverse_key_int : forall x y,
  cell_cmp (reverse_cell (CI x)) (reverse_cell (CI y)) = cell_cmp (CI y) (CI x).
Proof. exact reverse_int_cmp. Qed.

(** floats are negated; exact for the decimals repr() shows (no trailing zero in the mantissa) *)
Theorem reverse_key_float : forall m1 e1 m2 e2, ((dec_q m1 e1 == dec_q m2 e2)%Q -> e1 = e2) ->
  cell_cmp (reverse_cell (CF m1 e1)) (reverse_cell (CF m2 e2)) = cell_cmp (CF m2 e2) (CF m1 e1).
Proof. exact reverse_float_cmp. Qed.

Theorem reverse_key_rank : forall col x y, In x col -> In y col ->
  cell_cmp (neg_rank_cell col x) (neg_rank_cell col y) = cell_cmp y x.
Proof. exact neg_rank_reverses. Qed.

(** sorted(columns=, reverse=), every table and every argument on which the model
    succeeds (int / float / str / bool key columns, any of them in reverse=, alone or as
    one key of several): header and row count unchanged and the rows are
    sorted(rows, key tuple, per-column reverse) of a plain list of rows -- THE
    stable sort, see the four theorems below *)
Theorem sorted_eq_spec_sorted : forall t columns reverse t',
  wf t -> (hdr t = [] -> nrows t = 0%nat) -> sorted t columns reverse = Ok t' ->
  let cr := sort_columns t columns reverse in
  NoDup (snd cr) ->
  (forall c, In c (snd cr) -> In c (fst cr) -> dec_normal_col (col_of t c)) ->
  hdr t' = hdr t /\ wf t' /\ nrows t' = nrows t /\
  rows t' = spec_sorted (hdr t) (rows t) (fst cr) (rev_flags (fst cr) (snd cr)).
Proof. exact sorted_is_stable_sort. Qed.

(** what [spec_sorted] is: a permutation, ordered, stable -- and the only such list *)
Theorem spec_sorted_permutation : forall h a columns revs, Permutation (spec_sorted h a columns revs) a.
Proof. exact spec_sorted_perm. Qed.

Theorem spec_sorted_is_ordered : forall h a columns revs,
  StronglySorted (fun r1 r2 => spec_row_leb h columns revs r1 r2 = true) (spec_sorted h a columns revs).
Proof. exact spec_sorted_ordered. Qed.

Theorem spec_sorted_is_stable : forall h a columns revs r,
  filter (leb_equiv (spec_row_leb h columns revs) r) (spec_sorted h a columns revs) =
  filter (leb_equiv (spec_row_leb h columns revs) r) a.
Proof. exact spec_sorted_stable. Qed.

Theorem spec_sorted_characterised : forall h a columns revs l,
  Permutation l a ->
  StronglySorted (fun r1 r2 => spec_row_leb h columns revs r1 r2 = true) l ->
  (forall r, filter (leb_equiv (spec_row_leb h columns revs) r) l =
             filter (leb_equiv (spec_row_leb h columns revs) r) a) ->
  l = spec_sorted h a columns revs.
Proof. exact spec_sorted_unique. Qed.

(** ---------------------------------------------------------------- selection, counting, derivation

    [coerce_col v = v] in the three derivation theorems says that the new column
    does not mix ints with floats (numpy would hold such a list as floats); it
    holds e.g. when no cell or every cell is a float ([coerce_col_id],
    [coerce_col_id_float] in Proofs/TableOpsProofs.v). *)

Theorem table_filtered : forall t f columns,
  wf t -> incl (default_cols t columns) (hdr t) -> NoDup (default_cols t columns) ->
  default_cols t columns <> [] ->
  exists t', filtered t f columns = Ok t' /\ hdr t' = hdr t /\ wf t' /\
             rows t' = spec_filtered (hdr t) (rows t) f (default_cols t columns).
Proof. exact filtered_spec. Qed.

Theorem table_count : forall t f columns,
  wf t -> incl (default_cols t columns) (hdr t) -> NoDup (default_cols t columns) ->
  default_cols t columns <> [] ->
  count t f columns = Ok (spec_count (hdr t) (rows t) f (default_cols t columns)).
Proof. exact count_spec. Qed.

Theorem table_filtered_by_column : forall t f, wf t ->
  exists t', filtered_by_column t f = Ok t' /\
             hdr t' = mask_take (map f (cols t)) (hdr t) /\ wf t' /\
             (hdr t' <> [] -> rows t' = map (mask_take (map f (cols t))) (rows t)).
Proof. exact filtered_by_column_spec. Qed.

(** distinct_values: every projected row is represented, every element is a
    projected row, no two elements are equal (Python equality) *)
Theorem table_distinct_values : forall t names,
  wf t -> incl names (hdr t) -> NoDup names -> names <> [] ->
  exists l, distinct_values t names = Ok l /\
    (forall k, In k (map (proj (hdr t) names) (rows t)) -> existsb (key_eqb k) l = true) /\
    (forall k, In k l -> In k (map (proj (hdr t) names) (rows t))) /\
    ForallOrdPairs (fun a b => key_eqb a b = false) l.
Proof. exact distinct_values_spec. Qed.

Theorem table_get_columns : forall t names,
  wf t -> incl names (hdr t) -> NoDup names -> names <> [] -> nrows t <> 0%nat ->
  exists t', get_columns t names = Ok t' /\ hdr t' = names /\ wf t' /\
             rows t' = spec_get_columns (hdr t) (rows t) names.
Proof. exact get_columns_spec. Qed.

(** ... a table without rows loses its columns (no rows either way) *)
Theorem table_get_columns_no_rows : forall t names,
  wf t -> incl names (hdr t) -> nrows t = 0%nat -> get_columns t names = Ok empty_table.
Proof. exact get_columns_no_rows. Qed.

Theorem table_with_new_column : forall t new f columns,
  wf t -> incl (default_cols t columns) (hdr t) -> NoDup (default_cols t columns) ->
  default_cols t columns <> [] ->
  coerce_col (map (fun r => f (proj (hdr t) (default_cols t columns) r)) (rows t)) =
  map (fun r => f (proj (hdr t) (default_cols t columns) r)) (rows t) ->
  let keep := filter (fun c => negb (str_eqb c new)) (hdr t) in
  exists t', with_new_column t new f columns = Ok t' /\ hdr t' = keep ++ [new] /\ wf t' /\
             rows t' = spec_with_new_column (hdr t) (rows t) new f (default_cols t columns).
Proof. exact with_new_column_spec. Qed.

Theorem table_transposed : forall t (new : str) (select : option str) (sah : str),
  wf t -> hdr t <> [] ->
  sah = match select with Some (c :: s) => c :: s | _ => hd [] (hdr t) end ->
  In sah (hdr t) ->
  length (dedup [] (map (proj (hdr t) [sah]) (rows t))) = nrows t ->
  NoDup (spec_transposed_header (hdr t) (rows t) new sah) ->
  (forall r, In r (rows t) ->
     coerce_col (proj (hdr t) (filter (fun c => negb (str_eqb c sah)) (hdr t)) r) =
     proj (hdr t) (filter (fun c => negb (str_eqb c sah)) (hdr t)) r) ->
  exists t', transposed t new select = Ok t' /\
             hdr t' = spec_transposed_header (hdr t) (rows t) new sah /\ wf t' /\
             rows t' = spec_transposed (hdr t) (rows t) sah.
Proof. exact transposed_spec. Qed.

Theorem table_appended : forall self (nc : option str) (titled : list (str * table)),
  wf self -> hdr self <> [] ->
  (forall tt, In tt titled -> wf (snd tt) /\ same_set (hdr (snd tt)) (hdr self) = true) ->
  match nc with Some n => ~ In n (hdr self) | None => True end ->
  (forall c, In c (hdr self) ->
     coerce_col (flat_map (fun tt : str * table => col_of (snd tt) c) titled) =
     flat_map (fun tt : str * table => col_of (snd tt) c) titled) ->
  exists t', appended self nc titled = Ok t' /\
    hdr t' = (match nc with Some n => [n] | None => [] end) ++ hdr self /\
    wf t' /\
    rows t' = spec_appended (hdr self)
                (map (fun tt : str * table => (fst tt, (hdr (snd tt), rows (snd tt)))) titled)
                (match nc with Some _ => true | None => false end).
Proof. exact appended_spec. Qed.

(** ---------------------------------------------------------------- delimited text *)

(** csv.reader (text mode, universal newlines) inverts csv.writer(delimiter=d,
    lineterminator="\n") on every list of records whose fields are free of
    '\r': delimiters, quotes, newlines and empty fields inside cells survive. *)
Theorem csv_parse_format_id : forall d rows,
  delim_okb d = true -> rows_okb rows = true ->
  csv_read d (fmt_rows d rows) = Some rows.
Proof. exact csv_roundtrip. Qed.

(** Table.write(sep=d) then load_delimited: header and the text of every cell
    (ints in decimal, True/False, None as the empty string, strings verbatim) *)
Theorem table_write_load_roundtrip : forall d t,
  delim_okb d = true -> length (hdr t) = length (cols t) -> hdr t <> [] ->
  forallb field_okb (hdr t) = true ->
  forallb (forallb cell_text_okb) (rows t) = true ->
  csv_read d (fmt_rows d (write_records t)) = Some (write_records t).
Proof. exact write_load_delimited_roundtrip. Qed.

(** the guard on '\r' is necessary: the faithful model loses the cell *)
Theorem csv_carriage_return_refuted : exists d rows,
  delim_okb d = true /\ rows_okb rows = false /\ Forall (fun r => r <> []) rows /\
  csv_read d (fmt_rows d rows) <> Some rows.
Proof. exact csv_roundtrip_cr_refuted. Qed.

(** ---------------------------------------------------------------- typed round trip: write, then load with type inference

    [classify_text] / [cast_str_to_array] / [load_records] (Model/TableLoad.v)
    transcribe load_table's type inference: the whole column through int(),
    then float(), else ast.literal_eval cell by cell.  A float cell [CF m e] is
    the decimal repr() shows; reading a decimal with at most 15 significant
    digits back gives the same float (binary64, DBL_DIG = 15: an assumption of
    the model, see its header). *)

(** what is written for a cell is read back as that cell *)
Theorem written_int_is_read_back : forall z, classify_text (z_str z) = TInt z.
Proof. exact classify_z_str. Qed.

Theorem written_float_is_read_back : forall m e,
  dec_okb m e = true -> classify_text (float_str m e) = TFloat m e.
Proof. exact classify_float_str. Qed.

Theorem written_bool_is_read_back : forall b : bool,
  classify_text (if b then s_True else s_False) = TBool b.
Proof. exact classify_bool. Qed.

Theorem plain_text_stays_text : forall s, plain_textb s = true -> classify_text s = TPlain.
Proof. exact classify_plain. Qed.

(** per column: 64-bit ints, floats (<= 15 significant digits), bools and plain
    strings come back with the same type and value *)
Theorem typed_column_roundtrip : forall col,
  typed_col_okb col = true -> cast_str_to_array (map csv_cell_text col) = Ok col.
Proof. exact column_roundtrip. Qed.

(** Table.write(sep=d) then load_table: the SAME TABLE -- header, typed cells,
    row count -- for every well-formed table whose columns are such columns *)
Theorem typed_table_roundtrip : forall d t,
  delim_okb d = true -> wf t -> hdr t <> [] ->
  forallb field_okb (hdr t) = true ->
  forallb typed_col_okb (cols t) = true ->
  write_then_load d (write_records t) = Ok t.
Proof. exact table_typed_roundtrip. Qed.

(** CONVENTION of the type inference (required by the pinned unit tests, not a
    defect): text that looks like numbers is read as numbers -- a column of the
    strings "007", "010" comes back as the ints 7, 10; so the plain-text side
    condition on string columns is necessary ... *)
Theorem numeric_looking_text_read_as_numbers_convention : exists col,
  Forall (fun c => exists s, c = CS s) col /\
  cast_str_to_array (map csv_cell_text col) = Ok [CI 7; CI 10] /\
  cast_str_to_array (map csv_cell_text col) <> Ok col.
Proof. exact numeric_text_not_preserved. Qed.

(** ... it stays text next to real text; ints next to floats become floats;
    "True" / "None" inside a text column become True / None *)
Theorem leading_zero_text_next_to_text : cast_str_to_array [[48;48;55]; [120]] = Ok [CS [48;48;55]; CS [120]].
Proof. exact cast_leading_zeros_text. Qed.

Theorem int_text_next_to_float_text : cast_str_to_array [[49]; [50;46;53]] = Ok [CF 1 0; CF 25 (-1)].
Proof. exact cast_int_float. Qed.

Theorem literal_text_in_text_column : cast_str_to_array [s_True; [120]; s_None] = Ok [CB true; CS [120]; CN].
Proof. exact cast_literals_in_text. Qed.

(** ---------------------------------------------------------------- index_name, title and legend

    An indexed table is a column store plus the name of its index column
    (Model/TableIndex.v); [index_ok t ix] is the state after [table.index_name = ix]
    succeeded: the index column is first and its values are pairwise different. *)

(** setting index_name: the column moves to the front, every row keeps its cells *)
Theorem index_name_set : forall t (n : str), wf t -> In n (hdr t) -> unique_col (col_of t n) = true ->
  activate t (Some n) = Ok (mkIT (move_front n t) (Some n)) /\
  wf (move_front n t) /\
  hdr (move_front n t) = n :: filter (fun c => negb (str_eqb c n)) (hdr t) /\
  rows (move_front n t) =
    spec_get_columns (hdr t) (rows t) (n :: filter (fun c => negb (str_eqb c n)) (hdr t)) /\
  index_ok (move_front n t) (Some n).
Proof. exact activate_set. Qed.

(** ... it is rejected (ValueError) exactly for an unknown column or repeated values *)
Theorem index_name_rejected : forall t (n : str), wf t ->
  (~ In n (hdr t) \/ unique_col (col_of t n) = false) -> activate t (Some n) = Er E_Value.
Proof. exact activate_rejects. Qed.

Theorem index_values_pairwise_different : forall col, unique_col col = true <-> pairwise_ne col.
Proof. exact unique_col_iff. Qed.

(** table[label, column]: the cell of the first row whose index cell equals the label; KeyError when no row has it *)
Theorem row_label_lookup : forall t (n c : str) label v,
  wf t -> index_ok t (Some n) -> In c (hdr t) ->
  it_lookup (mkIT t (Some n)) label c = Ok v ->
  exists i, (i < nrows t)%nat /\ cell_eqb (nth i (col_of t n) CN) label = true /\
            (forall j, (j < i)%nat -> cell_eqb (nth j (col_of t n) CN) label = false) /\
            v = nth (pos c (hdr t)) (nth i (rows t) []) CN.
Proof. exact it_lookup_spec. Qed.

Theorem row_label_missing : forall t (n c : str) label,
  wf t -> index_ok t (Some n) ->
  (forall x, In x (col_of t n) -> cell_eqb x label = false) ->
  it_lookup (mkIT t (Some n)) label c = Er E_Key.
Proof. exact it_lookup_missing. Qed.

(** filtered and sorted keep the index (same rows as without an index, index still first and unique) *)
Theorem indexed_filtered : forall t ix f columns,
  wf t -> index_ok t ix ->
  incl (default_cols t columns) (hdr t) -> NoDup (default_cols t columns) ->
  default_cols t columns <> [] ->
  exists t', it_filtered (mkIT t ix) f columns = Ok (mkIT t' ix) /\ hdr t' = hdr t /\ wf t' /\
             index_ok t' ix /\
             rows t' = spec_filtered (hdr t) (rows t) f (default_cols t columns).
Proof. exact it_filtered_spec. Qed.

Theorem indexed_sorted : forall t ix columns reverse t',
  wf t -> (hdr t = [] -> nrows t = 0%nat) -> index_ok t ix ->
  sorted t columns reverse = Ok t' ->
  NoDup (snd (sort_columns t columns reverse)) ->
  (forall c, In c (snd (sort_columns t columns reverse)) -> In c (fst (sort_columns t columns reverse)) ->
             dec_normal_col (col_of t c)) ->
  it_sorted (mkIT t ix) columns reverse = Ok (mkIT t' ix) /\ index_ok t' ix.
Proof. exact it_sorted_keeps_index. Qed.

(** transposed of an indexed table takes its header from [select_as_header], not
    from the index column (the repaired behaviour, fix C20-9), and drops the index *)
Theorem indexed_transposed : forall t ix (new : str) (select : option str) (sah : str),
  wf t -> hdr t <> [] ->
  sah = match select with Some (c :: s) => c :: s | _ => hd [] (hdr t) end ->
  In sah (hdr t) ->
  length (dedup [] (map (proj (hdr t) [sah]) (rows t))) = nrows t ->
  NoDup (spec_transposed_header (hdr t) (rows t) new sah) ->
  (forall r, In r (rows t) ->
     coerce_col (proj (hdr t) (filter (fun c => negb (str_eqb c sah)) (hdr t)) r) =
     proj (hdr t) (filter (fun c => negb (str_eqb c sah)) (hdr t)) r) ->
  exists t', it_transposed (mkIT t ix) new select = Ok (mkIT t' None) /\
             hdr t' = spec_transposed_header (hdr t) (rows t) new sah /\ wf t' /\
             rows t' = spec_transposed (hdr t) (rows t) sah.
Proof. exact it_transposed_spec. Qed.

(** write (title row, header, rows, legend row) then load_table(with_title,
    with_legend, index_name): the same title, legend and indexed table *)
Theorem typed_table_title_legend_index_roundtrip : forall d (title legend : str) t ix,
  delim_okb d = true -> wf t -> hdr t <> [] ->
  forallb field_okb (hdr t) = true -> forallb typed_col_okb (cols t) = true ->
  field_okb title = true -> field_okb legend = true ->
  index_ok t ix ->
  write_then_load_tl d title legend (mkIT t ix) = Ok (title, legend, mkIT t ix).
Proof. exact table_title_legend_index_roundtrip. Qed.

(** ---------------------------------------------------------------- object-dtype sort keys

    A key column holding None, or numbers next to strings, has numpy dtype
    object.  As the FIRST key of a table with two or more rows the code raises
    TypeError -- and so does Python's sort of the row tuples (None < 1, 1 < "a"
    are TypeErrors): there is no sorted list of rows to agree with.  (Reversed
    object keys raise the same way, see the Examples in Proofs/TableSortProofs.v;
    object columns of mutually comparable numbers, and object columns that are
    only compared on ties of earlier keys, are left to the correspondence.) *)
Theorem sorted_object_first_key_type_error : forall t columns reverse (c0 : str) rest,
  wf t ->
  fst (sort_columns t columns reverse) = c0 :: rest ->
  snd (sort_columns t columns reverse) = [] ->
  nodup_strs (c0 :: rest) = true ->
  incl (c0 :: rest) (hdr t) ->
  (2 <= nrows t)%nat ->
  dtype_of (col_of t c0) = DObj ->
  incomparable_col (col_of t c0) = true ->
  sorted t columns reverse = Er E_Type.
Proof. exact sorted_object_first_key_raises. Qed.

(** ---------------------------------------------------------------- JSON and pickle

    [Table.to_rich_dict] / [__getstate__] and [deserialise_tabular] / [__setstate__]
    are modelled and proved by property C10 (Model/Serial.v, [table_roundtrip]);
    [to_serial] renders a C20 table as that model's table (cells as JSON scalars,
    floats as their repr, numpy dtype names), [of_serial] reads header, typed cells
    and index_name back.  Pickle stores the same dictionary; gzip / bz2 are taken
    to be identity wrappers. *)
Theorem table_json_pickle_roundtrip : forall t index attrs,
  wf t ->
  forallb Serial.stripped (hdr t) = true ->
  index_okb t index = true ->
  floats_normal t ->
  exists d t',
    Serial.table_to_dict (to_serial t index attrs) = Serial.JObj d /\
    Serial.table_of_dict d = View.Ok t' /\
    of_serial t' = Some (hdr t, cols t, index) /\
    Serial.t_attrs t' = attrs.
Proof. exact table_json_roundtrip. Qed.

(** ---------------------------------------------------------------- count_unique and the argument forms

    [count_unique(columns)] / [distinct_values(columns)] take a bare name, an int
    position, a list / tuple of names, or (count_unique) nothing = all columns
    ([carg], Model/TableCount.v).  The first component of the result says
    whether the keys are scalars: exactly when ONE column is selected, however
    it was spelled. *)

(** the counter is a plain count over the data, keys compared with Python equality *)
Theorem counter_is_plain_count : forall data,
  (forall k n, In (k, n) (counter data) -> In k data /\ n = occ k data /\ 0 < n) /\
  (forall d, In d data -> exists k n, In (k, n) (counter data) /\ key_eqb d k = true) /\
  ForallOrdPairs (fun a b => key_eqb (fst a) (fst b) = false) (counter data).
Proof. exact counter_spec. Qed.

(** count_unique = that counter over the projected rows; scalar keys iff one column *)
Theorem table_count_unique : forall t a names,
  wf t -> resolve_carg t a true = Ok names -> incl names (hdr t) -> NoDup names ->
  exists cnt, count_unique t a = Ok (Nat.eqb (length names) 1, cnt) /\
              cnt = counter (map (proj (hdr t) names) (rows t)).
Proof. exact count_unique_spec. Qed.

(** "a", ["a"] / ("a",) and the position of "a" are the same request; no argument
    on a one-column table is that column *)
Theorem count_unique_argument_forms : forall t (s : str) i,
  0 <= i < zlen (hdr t) -> nth (Z.to_nat i) (hdr t) [] = s ->
  count_unique t (CName s) = count_unique t (CList [s]) /\
  count_unique t (CInt i) = count_unique t (CName s).
Proof. exact count_unique_forms_agree. Qed.

Theorem distinct_values_argument_forms : forall t (s : str) i,
  0 <= i < zlen (hdr t) -> nth (Z.to_nat i) (hdr t) [] = s ->
  distinct_values_arg t (CName s) = distinct_values_arg t (CList [s]) /\
  distinct_values_arg t (CInt i) = distinct_values_arg t (CName s).
Proof. exact distinct_values_forms_agree. Qed.

Theorem count_unique_no_argument_one_column : forall t (s : str),
  hdr t = [s] -> count_unique t CNone = count_unique t (CName s).
Proof. exact count_unique_none_one_column. Qed.

(** count_unique and distinct_values agree: same scalar / tuple form, the same keys in the same order *)
Theorem count_unique_keys_are_distinct_values : forall t a names,
  wf t -> resolve_carg t a false = Ok names -> incl names (hdr t) -> NoDup names ->
  exists cnt ks,
    count_unique t a = Ok (Nat.eqb (length names) 1, cnt) /\
    distinct_values_arg t a = Ok (Nat.eqb (length names) 1, ks) /\
    map fst cnt = ks.
Proof. exact count_unique_keys_distinct. Qed.

(** ---------------------------------------------------------------- inner_join(other) on the index columns

    The default [use_index=True] path of [Table.inner_join]: both tables carry an
    index_name (any two names; [other] may also hold a data column named like
    self's index): rows pair on self[index] == other[other's index] exactly like
    the nested-loop join; other's remaining columns are prefixed; self's index is kept. *)
Theorem inner_join_default_pairs_the_indexes : forall self other (si oi : str) prefix,
  wf self -> wf other -> In si (hdr self) -> In oi (hdr other) -> hdr self <> [] ->
  NoDup (spec_join_header (hdr self) (hdr other) [oi] prefix) ->
  exists b,
    inner_join self other (Some [si]) (Some [oi]) prefix = Ok b /\ wf b /\
    hdr b = spec_join_header (hdr self) (hdr other) [oi] prefix /\
    rows b = spec_inner_join (hdr self) (rows self) (hdr other) (rows other) [si] [oi] /\
    it_inner_join_index (mkIT self (Some si)) (mkIT other (Some oi)) prefix = activate b (Some si).
Proof. exact inner_join_on_indexes. Qed.

Theorem inner_join_default_needs_both_indexes : forall self other prefix,
  iname self = None \/ iname other = None -> it_inner_join_index self other prefix = Er E_Value.
Proof. exact inner_join_needs_both_indexes. Qed.
