(** C17 — Annotation databases return exactly the matching records.
    Only theorem statements; every proof is [exact <lemma>]. *)
From Coq Require Import Permutation Sorting.Sorted.
From CG3 Require Import Lib.PyZ Model.AnnotDb Spec.AnnotDbSpec Proofs.AnnotDbProofs.
From CG3gen Require Import OverlapGen.

(** the 4-clause SQL overlap test the current source emits is interval overlap *)
Theorem overlap_iff : forall fs fe qs qe,
  fs < fe -> qs < qe -> (gen_partial fs fe qs qe = true <-> fs < qe /\ qs < fe).
Proof. exact gen_partial_overlap_iff. Qed.

Theorem within_iff : forall fs fe qs qe, gen_within fs fe qs qe = within fs fe qs qe.
Proof. exact gen_within_spec. Qed.

Theorem single_bound_start : forall fs fe qs, gen_start_only fs fe qs = covers fs fe qs.
Proof. exact gen_start_only_spec. Qed.

Theorem single_bound_stop : forall fs fe qe, gen_stop_only fs fe qe = covers fs fe qe.
Proof. exact gen_stop_only_spec. Qed.

(** degenerate windows / zero-length features characterised on every input *)
Theorem overlap_total : forall fs fe qs qe,
  gen_partial fs fe qs qe = within fs fe qs qe || covers fs fe qs || ((fs <? qe) && (qe <=? fe)) || ((fs <=? qs) && (qe <=? fe)).
Proof. exact gen_partial_total. Qed.

(** any query on any database = linear scan of the record list *)
Theorem query_is_linear_scan : forall tables db q,
  Forall row_wf db -> query_wf q -> gquery tables db q = scan tables db q.
Proof. exact query_is_scan. Qed.

Theorem num_matches_is_length : forall tables db q,
  Forall row_wf db -> query_wf q -> q_on_aln q <> Some true ->
  gcount tables db q = zlen (scan tables db q).
Proof. exact count_is_length. Qed.

Theorem returned_rows_are_stored_rows : forall tables db q r,
  In r (gquery tables db q) -> In r db /\ grow_match q r = true.
Proof. exact query_sound. Qed.

Theorem add_feature_start_stop : forall seqid bt nm strand attrs on spans,
  spans <> [] ->
  let r := add_feature seqid bt nm strand attrs on spans in
  In (r_start r) (coords spans) /\ In (r_stop r) (coords spans) /\
  (forall x, In x (coords spans) -> r_start r <= x <= r_stop r).
Proof. exact add_feature_bounds. Qed.

Theorem add_feature_spans_intact : forall seqid bt nm strand attrs on spans,
  let r := add_feature seqid bt nm strand attrs on spans in
  Permutation (r_spans r) (map norm_span spans) /\ Sorted span_le (r_spans r).
Proof. exact add_feature_spans. Qed.

Theorem gff_coords : forall s e,
  1 <= s <= e -> gff_coord s e = (s - 1, e) /\ e - (s - 1) = e - s + 1.
Proof. exact gff_coord_spec. Qed.

Theorem union_preserves_multiset : forall a b, Permutation (db_union a b) (a ++ b).
Proof. exact union_multiset. Qed.

Theorem update_preserves_multiset : forall a b, Permutation (db_update a b) (a ++ b).
Proof. exact update_multiset. Qed.
