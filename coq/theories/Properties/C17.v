(** C17 — Annotation databases return exactly the matching records.
    Only theorem statements; every proof is [exact <lemma>]. *)
From Coq Require Import Permutation Sorting.Sorted.
From CG3 Require Import Lib.PyZ Model.AnnotDb Spec.AnnotDbSpec Proofs.AnnotDbProofs.
From CG3 Require Import Model.AnnotDbGff Proofs.AnnotDbGffProofs Proofs.AnnotDbGffMergeProofs Proofs.AnnotDbCountProofs.
From CG3 Require Import Model.AnnotDbGffText Proofs.AnnotDbGffTextProofs.
From CG3gen Require Import OverlapGen.

(** the 4-clause SQL overlap test the current source emits is interval overlap *)
Theorem overlap_iff : forall fs fe qs qe,
  fs < fe -> qs < qe -> (gen_partial fs fe qs qe = true <-> fs < qe /\ qs < fe).
Proof. exact gen_partial_overlap_iff. Qed.

Theorem within_iff : forall fs fe qs qe, gen_within fs fe qs qe = within fs fe qs qe.
Proof. exact gen_within_spec. Qed.

Theorem single_bound_start : forall fs fe qs, gen_start_only fs fe qs = covers fs fe qs.
Proof. exact gen_start_only_spec. Qed.

Theorem single_bound_stop : forall fs fe qe, gen_stop_only fs fe qe = covers fs fe qe.
Proof. exact gen_stop_only_spec. Qed.

(** degenerate windows / zero-length features characterised on every input *)
Theorem overlap_total : forall fs fe qs qe,
  gen_partial fs fe qs qe = within fs fe qs qe || covers fs fe qs || ((fs <? qe) && (qe <=? fe)) || ((fs <=? qs) && (qe <=? fe)).
Proof. exact gen_partial_total. Qed.

(** any query on any database = linear scan of the record list *)
Theorem query_is_linear_scan : forall tables db q,
  Forall row_wf db -> query_wf q -> gquery tables db q = scan tables db q.
Proof. exact query_is_scan. Qed.

Theorem num_matches_is_length : forall tables db q,
  Forall row_wf db -> query_wf q -> q_on_aln q <> Some true ->
  gcount tables db q = zlen (scan tables db q).
Proof. exact count_is_length. Qed.

Theorem returned_rows_are_stored_rows : forall tables db q r,
  In r (gquery tables db q) -> In r db /\ grow_match q r = true.
Proof. exact query_sound. Qed.

Theorem add_feature_start_stop : forall seqid bt nm strand attrs on spans,
  spans <> [] ->
  let r := add_feature seqid bt nm strand attrs on spans in
  In (r_start r) (coords spans) /\ In (r_stop r) (coords spans) /\
  (forall x, In x (coords spans) -> r_start r <= x <= r_stop r).
Proof. exact add_feature_bounds. Qed.

Theorem add_feature_spans_intact : forall seqid bt nm strand attrs on spans,
  let r := add_feature seqid bt nm strand attrs on spans in
  Permutation (r_spans r) (map norm_span spans) /\ Sorted span_le (r_spans r).
Proof. exact add_feature_spans. Qed.

Theorem gff_coords : forall s e,
  1 <= s <= e -> gff_coord s e = (s - 1, e) /\ e - (s - 1) = e - s + 1.
Proof. exact gff_coord_spec. Qed.

Theorem union_preserves_multiset : forall a b, Permutation (db_union a b) (a ++ b).
Proof. exact union_multiset. Qed.

Theorem update_preserves_multiset : forall a b, Permutation (db_update a b) (a ++ b).
Proof. exact update_multiset. Qed.

(** ---------- GFF text loaded in blocks of [lines_per_block] lines ----------
    [load fixed N lines]: the loop of [_db_from_gff] over [iter_line_blocks]
    with the fake-id counter, the set of seen names and the span merging.
    [fixed = true] is the rule in the source since commit 8412cc0a1 (a name met
    again in a later block has its rows merged into the stored record and
    start/stop recomputed); [fixed = false] is the rule before that commit
    (finding C17-3).  The check establishes on every run which of the two the
    source under test follows (harness/props/c17.py, GB_PROBE). *)

(** the table is the one the text describes — one record per distinct name in
    order of first appearance — for EVERY block size, provided no feature
    repeats a span (induction over the blocks) *)
Theorem gff_load_is_table_of_text : forall N lines,
  distinct_spans (assign 0 (data_lines lines)) ->
  st_db (load true N lines) = table_of (assign 0 (data_lines lines)).
Proof. exact load_fixed_table. Qed.

Theorem gff_load_independent_of_lines_per_block : forall N N' lines,
  distinct_spans (assign 0 (data_lines lines)) ->
  st_db (load true N lines) = st_db (load true N' lines).
Proof. exact load_fixed_independent. Qed.

(** what that table holds: the columns of the first row of the name, the sorted
    converted coordinates of all its rows, start/stop their extremes; one row per name *)
Theorem gff_table_rows : forall al r,
  In r (table_of al) ->
  exists q, In q al /\ gr_name r = fst q /\ gr_line r = snd q /\
            gr_spans r = sort_spans (grp al (fst q)) /\ Permutation (gr_spans r) (grp al (fst q)) /\
            gr_start r = spans_min (gr_spans r) /\ gr_stop r = spans_max (gr_spans r).
Proof. exact table_of_row. Qed.

Theorem gff_table_names : forall al,
  NoDup (map gr_name (table_of al)) /\ (forall n, In n (map fst al) <-> In n (map gr_name (table_of al))).
Proof. exact table_of_names. Qed.

(** the hypothesis is needed: a row repeated verbatim in a later block is absorbed by
    [_merge_spans] (numpy.unique), in one block it is kept *)
Theorem gff_repeated_row_refuted : st_db (load true 1 dup_file) <> st_db (load true 2 dup_file).
Proof. exact repeated_row_depends_on_block_size. Qed.

(** start/stop = extremes of the spans, for every file (no hypothesis) and every block size *)
Theorem gff_extent_invariant : forall N lines, Forall extent_ok (st_db (load true N lines)).
Proof. exact load_fixed_extent. Qed.

(** when no two rows share an ID the table is the one-record-per-row table,
    under either rule (the carried counter keeps the names of ID-less rows apart) *)
Theorem gff_load_one_record_per_row : forall fixed N lines,
  NoDup (real_ids (data_lines lines)) ->
  st_db (load fixed N lines) = rows_of_lines (data_lines lines).
Proof. exact load_distinct_ids. Qed.

Theorem gff_fake_id_counter_carried_across_blocks : forall fixed N lines,
  NoDup (real_ids (data_lines lines)) -> st_k (load fixed N lines) = nfake (data_lines lines).
Proof. exact load_counter. Qed.

(** one record of that table: the row's own columns, 1-based closed -> 0-based half-open, start/stop its ends *)
Theorem gff_row_record : forall n l,
  1 <= gl_s l <= gl_e l ->
  let r := mk_grow (single n l) in
  gr_name r = n /\ gr_line r = l /\ gr_spans r = [(gl_s l - 1, gl_e l)] /\
  gr_start r = gl_s l - 1 /\ gr_stop r = gl_e l.
Proof. exact row_of_line. Qed.

(** the rule before commit 8412cc0a1 (finding C17-3): a feature whose rows fall into
    different blocks was stored twice and the first record kept a stale start/stop *)
Definition stmt_gff_load_independent_before_fix : Prop :=
  forall N N' lines, 0 < N -> 0 < N' -> st_db (load false N lines) = st_db (load false N' lines).

Theorem gff_load_before_fix_refuted :
  exists N N' lines, 0 < N /\ 0 < N' /\ st_db (load false N lines) <> st_db (load false N' lines).
Proof. exact split_feature_depends_on_block_size. Qed.

Theorem gff_split_feature_extent_before_fix_refuted :
  exists r, In r (st_db (load false 2 split_file)) /\ gr_stop r <> spans_max (gr_spans r).
Proof. exact split_feature_stale_extent. Qed.

(** ---------- stored rows: start/stop are the extremes of the spans (GFF and GenBank loaders) ---------- *)
Theorem gff_row_start_stop : forall seqid bt nm strand attrs lines,
  lines <> [] ->
  let r := gff_row seqid bt nm strand attrs lines in
  Permutation (r_spans r) (map norm_span (map (fun p => gff_coord (fst p) (snd p)) lines)) /\
  In (r_start r) (coords (r_spans r)) /\ In (r_stop r) (coords (r_spans r)) /\
  (forall x, In x (coords (r_spans r)) -> r_start r <= x <= r_stop r).
Proof. exact gff_row_extent. Qed.

Theorem genbank_row_start_stop : forall seqid bt nm x,
  loc_flat x <> [] ->
  let r := gb_row seqid bt nm x in
  In (r_start r) (coords (r_spans r)) /\ In (r_stop r) (coords (r_spans r)) /\
  (forall y, In y (coords (r_spans r)) -> r_start r <= y <= r_stop r).
Proof. exact gb_row_extent. Qed.

(** ---------- GenBank locations: 1-based closed -> 0-based half-open, complement -> strand ---------- *)
Theorem genbank_segment_coords : forall a b,
  1 <= a <= b ->
  loc_spans (LSeg a b) = [(a - 1, b)] /\ loc_strand (LSeg a b) = Some [43] /\ b - (a - 1) = b - a + 1.
Proof. exact gb_segment. Qed.

Theorem genbank_point_coords : forall a, loc_spans (LPoint a) = [(a - 1, a)] /\ loc_strand (LPoint a) = Some [43].
Proof. exact gb_point. Qed.

Theorem genbank_complement_segment : forall a b,
  loc_spans (LCompl [LSeg a b]) = loc_spans (LSeg a b) /\ loc_strand (LCompl [LSeg a b]) = Some [45].
Proof. exact gb_complement_segment. Qed.

Theorem genbank_join_coords : forall ps,
  ps <> [] ->
  loc_spans (LJoin (map seg_of ps)) = sort_spans (map seg_span ps) /\
  loc_strand (LJoin (map seg_of ps)) = Some [43].
Proof. exact gb_join_segments. Qed.

Theorem genbank_complement_join_coords : forall ps,
  ps <> [] ->
  Permutation (loc_spans (LCompl [LJoin (map seg_of ps)])) (map seg_span ps) /\
  Sorted span_le (loc_spans (LCompl [LJoin (map seg_of ps)])) /\
  loc_strand (LCompl [LJoin (map seg_of ps)]) = Some [45].
Proof. exact gb_complement_join_segments. Qed.

(** ---------- multi-table databases: the tables partition the record list ---------- *)
Theorem table_listing_is_the_record_multiset : forall tables db,
  tables_ok tables db -> Permutation (records_in_tables tables db) db.
Proof. exact records_in_tables_perm. Qed.

(** subset(): exactly the records of the whole db (every table) a scan selects *)
Theorem subset_is_scan_of_all_tables : forall tables db q,
  tables_ok tables db -> Forall row_wf db -> query_wf q -> q_on_aln q <> Some true ->
  Permutation (gquery tables db q) (filter (spec_match q) db).
Proof. exact subset_multiset. Qed.

(** update()/union() as the code does them, table by table, between classes with different table sets *)
Theorem update_between_classes_preserves_multiset : forall otables self other,
  tables_ok otables other -> Permutation (db_update_tw otables self other) (self ++ other).
Proof. exact update_tw_multiset. Qed.

Theorem union_between_classes_preserves_multiset : forall stables otables a b,
  tables_ok stables a -> tables_ok otables b ->
  Permutation (db_union_tw stables otables a b) (a ++ b).
Proof. exact union_tw_multiset. Qed.

(** to_rich_dict -> from_dict: same multiset of records, and every query answers the same *)
Theorem rich_dict_roundtrip_preserves_multiset : forall tables db,
  tables_ok tables db -> Permutation (from_rich (to_rich tables db)) db.
Proof. exact rich_roundtrip_multiset. Qed.

Theorem rich_dict_roundtrip_preserves_queries : forall tables db q,
  tables_ok tables db ->
  gquery tables (from_rich (to_rich tables db)) q = gquery tables db q /\
  gcount tables (from_rich (to_rich tables db)) q = gcount tables db q.
Proof. exact rich_roundtrip_query. Qed.

(** ---------- count_distinct = GROUP BY over the records a scan selects ---------- *)
Theorem count_distinct_result : forall tables db sa ba na,
  is_col sa || is_col ba || is_col na = true ->
  count_distinct tables db sa ba na = Some (flat_map (fun t => cd_rows t db sa ba na) tables).
Proof. exact count_distinct_tables. Qed.

(** each reported count is the number of selected records of that table carrying that key *)
Theorem count_distinct_counts_are_scan_counts : forall t db sa ba na k n,
  In (k, n) (cd_rows t db sa ba na) ->
  n = zlen (filter (fun r => key_eqb k (cd_key sa ba na r)) (filter (cd_match sa ba na) (rows_of t db))).
Proof. exact cd_rows_sound. Qed.

(** every selected record is counted under its key, keys are reported once, counts add up to num_matches *)
Theorem count_distinct_complete : forall t db sa ba na r,
  In r (rows_of t db) -> cd_match sa ba na r = true ->
  exists n, In (cd_key sa ba na r, n) (cd_rows t db sa ba na) /\ 0 < n.
Proof. exact cd_rows_complete. Qed.

Theorem count_distinct_keys_distinct : forall t db sa ba na, NoDup (map fst (cd_rows t db sa ba na)).
Proof. exact cd_rows_keys_distinct. Qed.

Theorem count_distinct_total : forall t db sa ba na,
  zsum (map snd (cd_rows t db sa ba na)) = zlen (filter (cd_match sa ba na) (rows_of t db)).
Proof. exact cd_rows_total. Qed.

(** ---------- several GFF files behind one wildcard path ----------
    [load_files fixed carry N files]: the outer loop [for path in paths] of
    [_db_from_gff]; [carry = true]: the fake-id counter runs on across the files
    (notes/proposed_fixes/C17-4.diff), [carry = false]: it restarts per file while
    [seen_ids] is shared (the source as first read, finding C17-4).  The check
    establishes on every run which one the source follows (GF_PROBE). *)

(** loading files f1..fk with any block size = the table of their concatenation:
    independent of how the text is cut into files and into blocks *)
Theorem gff_files_load_is_table_of_concatenation : forall N files,
  distinct_spans (assign 0 (data_lines (concat files))) ->
  st_db (load_files true true N files) = table_of (assign 0 (data_lines (concat files))).
Proof. exact load_files_table. Qed.

Theorem gff_load_independent_of_files_and_blocks : forall N N' files files',
  concat files = concat files' ->
  distinct_spans (assign 0 (data_lines (concat files))) ->
  st_db (load_files true true N files) = st_db (load_files true true N' files').
Proof. exact load_files_independent. Qed.

Theorem gff_files_load_is_one_block_load : forall N files,
  distinct_spans (assign 0 (data_lines (concat files))) ->
  st_db (load_files true true N files) = st_db (load true 0 (concat files)).
Proof. exact load_files_is_one_block. Qed.

(** with the counter restarting per file the ID-less record of the second file is
    absorbed by the unrelated ID-less record of the first (1 record instead of 2) *)
Theorem gff_counter_per_file_refuted :
  length (st_db (load_files true false 0 two_files)) = 1%nat /\
  length (st_db (load_files true true 0 two_files)) = 2%nat /\
  distinct_spans (assign 0 (data_lines (concat two_files))).
Proof. exact counter_per_file_merges_unrelated_records. Qed.

(** ---------- from TEXT: the GFF line -> row step ---------- *)
(** nine clean columns joined by tabs parse to the row they spell out
    (coordinates then go through [gff_coord]: 1-based closed -> 0-based half-open) *)
Theorem gff_wellformed_line_parses_to_its_row : forall f1 f2 f3 f4 f5 f6 f7 f8 f9 s e,
  field_ok f1 -> field_ok f2 -> field_ok f3 -> field_ok f4 -> field_ok f5 ->
  field_ok f6 -> field_ok f7 -> field_ok f8 -> field_ok f9 ->
  f1 <> [] -> f9 <> [] ->
  parse_int f4 = Some s -> parse_int f5 = Some e ->
  parse_line (gff_line f1 f2 f3 f4 f5 f6 f7 f8 f9) =
  PRow {| gl_id := id_of_attrs f9; gl_seqid := f1; gl_biotype := f3; gl_strand := f7;
          gl_attrs := f9; gl_s := s; gl_e := e |}.
Proof. exact parse_line_wellformed. Qed.

Theorem gff_comment_line_gives_no_row : forall s, parse_line (35 :: s) = PSkip.
Proof. exact parse_comment_line. Qed.

Theorem gff_blank_line_gives_no_row : forall s, forallb is_ws s = true -> parse_line s = PSkip.
Proof. exact parse_blank_line. Qed.

(** the ID is the value after the first "ID=", wherever it stands among the attributes *)
Theorem gff_id_found_in_any_position : forall pre v rest,
  ~ In 73 pre -> val_ok v -> ends_val rest ->
  id_of_attrs (pre ++ pat_id ++ v ++ rest) = Some v.
Proof. exact id_after_prefix. Qed.

Theorem gff_id_absent : forall a, ~ In 73 a -> id_of_attrs a = None.
Proof. exact id_absent. Qed.

(** [gff_load_is_table_of_text] starting from the text of the file *)
Theorem gff_text_load_is_table_of_text : forall N text lines,
  parse_lines (lines_of text) = Some lines ->
  distinct_spans (assign 0 (data_lines lines)) ->
  exists st, load_text N text = Some st /\ st_db st = table_of (assign 0 (data_lines lines)).
Proof. exact load_text_table. Qed.

Theorem gff_file_texts_load_is_table_of_concatenation : forall N texts files,
  parse_files texts = Some files ->
  distinct_spans (assign 0 (data_lines (concat files))) ->
  st_db (load_files true true N files) = table_of (assign 0 (data_lines (concat files))).
Proof. exact load_file_texts_table. Qed.

(** ---------- get_feature_children / get_feature_parent on the gff table ---------- *)
Theorem children_are_stored_records_naming_the_parent : forall strict q bt db r,
  In r (gff_children strict q bt db) ->
  In r db /\ exists p, row_parent r = Some p /\ like (wrap_pct q) p = true.
Proof. exact children_sound. Qed.

Theorem every_record_naming_the_parent_is_a_child : forall q db r a b,
  In r db -> row_parent r = Some (a ++ q ++ b) -> ~ In 37 q -> In r (gff_children false q None db).
Proof. exact children_complete. Qed.

(** under the strict rule (notes/proposed_fixes/C17-5.diff) children(q) IS the Parent= relation *)
Theorem strict_children_are_the_parent_relation : forall q db r,
  has_pct q = false ->
  (In r (gff_children true q None db) <->
   In r db /\ exists p, row_parent r = Some p /\ In q (parent_names p)).
Proof. exact children_strict_iff. Qed.

Theorem parents_are_stored_records_named_in_the_parent_list : forall cands db x,
  In x (parents_of cands db) ->
  exists r p nm, In r cands /\ row_parent r = Some p /\ In nm (parent_names p) /\
                 In x db /\ name_is nm (gr_name x) = true.
Proof. exact parents_sound. Qed.
