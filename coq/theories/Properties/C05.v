(** C05 — Substitution processes are valid, calibrated Markov processes.
    Only theorem statements; every proof is [exact <lemma>].  All theorems are
    over an arbitrary field given as a record of operations [o] satisfying
    [fld_laws o] (a premise, never an axiom); matrices are read on indices < n.
    Non-vacuity instances over Qc: Proofs/RateMatrixProofs.v, Module Examples. *)
From Coq Require Import Arith List QArith Qcanon.
From CG3 Require Import Lib.FieldAlg Lib.Mat Model.RateMatrix Spec.RateMatrixSpec Proofs.RateMatrixProofs.
Local Open Scope nat_scope.

(** rows of Q sum to zero for every exchangeability matrix / weighting (calcQ l.590, l.690) *)
Theorem Q_rows_zero : forall (R : Type) (o : fld_ops R), fld_laws o -> forall (n : nat) (wp : nat -> R) (Rm : fmat R), rate_rows_zero o n (calcQ_f o n wp Rm).
Proof. exact calcQ_rows_zero. Qed.

(** calibration: -Σ π_i Q_ii = 1 whenever the normalising sum is non-zero and the exchangeability diagonal is zero *)
Theorem Q_calibrated : forall (R : Type) (o : fld_ops R), fld_laws o -> forall (n : nat) (wp : nat -> R) (Rm : fmat R), (forall i : nat, i < n -> Rm i i = fzero o) -> sumn o n (fun i : nat => fmul o (wp i) (row_total o n Rm i)) <> fzero o -> calibrated o n wp (calcQ_f o n wp Rm).
Proof. exact calcQ_calibrated. Qed.

(** off-diagonal entries are >= 0 in every ordered field when exchangeabilities and probabilities are *)
Theorem Q_offdiag_nonneg : forall (R : Type) (o : fld_ops R), fld_laws o -> forall le : R -> R -> Prop, le (fzero o) (fzero o) -> (forall a b : R, le (fzero o) a -> le (fzero o) b -> le (fzero o) (fadd o a b)) -> (forall a b : R, le (fzero o) a -> le (fzero o) b -> le (fzero o) (fmul o a b)) -> (forall a : R, le (fzero o) a -> le (fzero o) (finv o a)) -> forall (n : nat) (wp : nat -> R) (Rm : fmat R), (forall i j : nat, i < n -> j < n -> le (fzero o) (Rm i j)) -> (forall i : nat, i < n -> le (fzero o) (wp i)) -> forall i j : nat, i < n -> j < n -> i <> j -> le (fzero o) (calcQ_f o n wp Rm i j).
Proof. exact calcQ_offdiag_nonneg. Qed.

(** Parametric.calc_exchangeability_matrix keeps entries >= 0 for parameters >= 0 *)
Theorem exchangeabilities_nonneg : forall (R : Type) (o : fld_ops R) (le : R -> R -> Prop), le (fzero o) (fzero o) -> le (fzero o) (fone o) -> (forall a b : R, le (fzero o) a -> le (fzero o) b -> le (fzero o) (fmul o a b)) -> forall (n : nat) (inst : bmask) (preds : list (bmask * R)), Forall (fun mp : bmask * R => le (fzero o) (snd mp)) preds -> forall i j : nat, i < n -> j < n -> le (fzero o) (get o (exchangeability o n inst preds) i j).
Proof. exact exchangeability_nonneg. Qed.

(** π-balanced weighted exchangeabilities give a reversible Q *)
Theorem detailed_balance : forall (R : Type) (o : fld_ops R), fld_laws o -> forall (n : nat) (wp : nat -> R) (Rm : fmat R), balanced o n wp Rm -> reversible o n wp (calcQ_f o n wp Rm).
Proof. exact calcQ_balanced. Qed.

(** detailed balance + zero row sums => πQ = 0 *)
Theorem reversible_is_stationary : forall (R : Type) (o : fld_ops R), fld_laws o -> forall (n : nat) (wp : nat -> R) (Q : fmat R), reversible o n wp Q -> rate_rows_zero o n Q -> stationary o n wp Q.
Proof. exact balanced_stationary. Qed.

(** StationaryQ.calcQ with tuple/nucleotide motif probs = the published generator r_ij π_j / μ *)
Theorem Q_is_published_definition : forall (R : Type) (o : fld_ops R), fld_laws o -> forall (n : nat) (wp : nat -> R) (Rm : fmat R), (forall i : nat, i < n -> Rm i i = fzero o) -> meq n (calcQ_f o n wp (hadamard o Rm (fun _ j : nat => wp j))) (spec_Q o n wp (reversible_rates o wp Rm)).
Proof. exact calcQ_is_published. Qed.

(** calcQ on any zero-diagonal rate table (general or stationary) = published construction: diagonal = -row total, divided by the expected rate *)
Theorem Q_is_published_construction : forall (R : Type) (o : fld_ops R), fld_laws o -> forall (n : nat) (wp : nat -> R) (Rm : fmat R), (forall i : nat, i < n -> Rm i i = fzero o) -> meq n (calcQ_f o n wp Rm) (spec_Q o n wp Rm).
Proof. exact calcQ_f_is_spec_Q. Qed.

(** MonomerProbModel: π_i M_ij = π_j M_ji *)
Theorem balanced_monomer : forall (R : Type) (o : fld_ops R), fld_laws o -> forall (len : nat) (words : list (list nat)) (mon : list R), same_length len words -> balanced o (length words) (vget o (monomer_word_probs o words mon)) (get o (mpm_monomer o (length words) words (inst_mask words) mon)).
Proof. exact monomer_balanced. Qed.

(** ConditionalMotifProbModel: π_i M_ij = π_j M_ji *)
Theorem balanced_conditional : forall (R : Type) (o : fld_ops R), fld_laws o -> forall (is_zero : R -> bool) (k len : nat) (words : list (list nat)) (wpl : list R), same_length len words -> balanced o (length words) (vget o wpl) (get o (mpm_conditional o is_zero (length words) k len words (inst_mask words) wpl)).
Proof. exact conditional_balanced. Qed.

(** SimpleMotifProbModel (tuple): π_i M_ij = π_j M_ji *)
Theorem balanced_tuple : forall (R : Type) (o : fld_ops R), fld_laws o -> forall (n : nat) (wpl : list R), balanced o n (vget o wpl) (get o (mpm_simple o n wpl)).
Proof. exact simple_balanced. Qed.

(** assembled non-stationary model (masks -> R -> calcQ): zero rows, calibrated *)
Theorem general_model : forall (R : Type) (o : fld_ops R), fld_laws o -> forall (n : nat) (inst : bmask) (preds : list (bmask * R)) (wpl : list R), (forall i : nat, i < n -> bget inst i i = false) -> let Rl := exchangeability o n inst preds in let Q := get o (calcQ_general o n wpl Rl) in rate_rows_zero o n Q /\ (sumn o n (fun i : nat => fmul o (vget o wpl i) (row_total o n (get o Rl) i)) <> fzero o -> calibrated o n (vget o wpl) Q).
Proof. exact general_model_Q. Qed.

(** assembled stationary model with symmetric masks: zero rows, detailed balance, stationarity, calibrated *)
Theorem reversible_model : forall (R : Type) (o : fld_ops R), fld_laws o -> forall (n : nat) (inst : bmask) (preds : list (bmask * R)) (wpl : list R) (mpml : lmat R), (forall i : nat, i < n -> bget inst i i = false) -> mask_sym n inst -> Forall (fun mp : bmask * R => mask_sym n (fst mp)) preds -> balanced o n (vget o wpl) (get o mpml) -> let Rl := exchangeability o n inst preds in let Q := get o (calcQ_stationary o n wpl mpml Rl) in rate_rows_zero o n Q /\ reversible o n (vget o wpl) Q /\ stationary o n (vget o wpl) Q /\ (sumn o n (fun i : nat => fmul o (vget o wpl i) (row_total o n (hadamard o (get o Rl) (get o mpml)) i)) <> fzero o -> calibrated o n (vget o wpl) Q).
Proof. exact reversible_model_Q. Qed.

(** EVERY polynomial p(A) maps an eigenvector v of A (Av = av) to p(a)v; with v = 1, a = 0: rows of p(Q) sum to p(0) *)
Theorem poly_right_eigenvector : forall (R : Type) (o : fld_ops R), fld_laws o -> forall (n : nat) (A : fmat R) (a : R) (v : nat -> R) (M : fmat R) (c : R), rfix o n A v a -> polyev o n A a M c -> rfix o n M v c.
Proof. exact polyev_rfix. Qed.

(** EVERY polynomial p(A): πA = aπ => π p(A) = p(a) π *)
Theorem poly_left_eigenvector : forall (R : Type) (o : fld_ops R), fld_laws o -> forall (n : nat) (p : nat -> R) (A : fmat R) (a : R) (M : fmat R) (c : R), lfix o n p A a -> polyev o n A a M c -> lfix o n p M c.
Proof. exact polyev_lfix. Qed.

(** any two polynomials in the same matrix commute *)
Theorem poly_commutes : forall (R : Type) (o : fld_ops R), fld_laws o -> forall (n : nat) (A : fmat R) (a : R) (M : fmat R) (c : R) (N : fmat R) (d : R), polyev o n A a M c -> polyev o n A a N d -> commute o n M N.
Proof. exact polyev_commute. Qed.

(** EVERY polynomial in a π-balanced matrix is π-balanced *)
Theorem poly_detailed_balance : forall (R : Type) (o : fld_ops R), fld_laws o -> forall (n : nat) (p : nat -> R) (A : fmat R) (a : R) (M : fmat R) (c : R), balanced o n p A -> polyev o n A a M c -> balanced o n p M.
Proof. exact polyev_balanced. Qed.

(** the TaylorExponentiator loop computes a polynomial in A, with value given by the same loop on scalars *)
Theorem taylor_is_polynomial : forall (R : Type) (o : fld_ops R) (n : nat) (Al : lmat R) (a : R) (terms : nat), polyev o n (get o Al) a (get o (taylor o n Al terms)) (taylor_s o a terms).
Proof. exact taylor_polyev. Qed.

(** every Taylor partial sum of a zero-row-sum matrix has rows summing to one *)
Theorem taylor_rows_sum_to_one : forall (R : Type) (o : fld_ops R), fld_laws o -> forall (n : nat) (Al : lmat R) (terms : nat), rate_rows_zero o n (get o Al) -> row_stochastic o n (get o (taylor o n Al terms)).
Proof. exact taylor_row_stochastic. Qed.

(** πQ = 0 => π·taylor = π *)
Theorem taylor_keeps_pi : forall (R : Type) (o : fld_ops R), fld_laws o -> forall (n : nat) (p : nat -> R) (Al : lmat R) (terms : nat), stationary o n p (get o Al) -> preserves o n p (get o (taylor o n Al terms)).
Proof. exact taylor_preserves. Qed.

(** reversible Q => reversible Taylor partial sums *)
Theorem taylor_detailed_balance : forall (R : Type) (o : fld_ops R), fld_laws o -> forall (n : nat) (p : nat -> R) (Al : lmat R) (terms : nat), reversible o n p (get o Al) -> reversible o n p (get o (taylor o n Al terms)).
Proof. exact taylor_reversible. Qed.

(** P(s) and P(t) commute for all truncation orders (the exact law P(s)P(t)=P(s+t) needs the limit) *)
Theorem taylor_semigroup_partial : forall (R : Type) (o : fld_ops R), fld_laws o -> forall (n : nat) (Al : lmat R) (s t : R) (k l : nat), commute o n (get o (taylor o n (lscale o n s Al) k)) (get o (taylor o n (lscale o n t Al) l)).
Proof. exact taylor_commute. Qed.

(** P(0) = I for the Taylor exponentiator *)
Theorem taylor_identity_at_zero : forall (R : Type) (o : fld_ops R), fld_laws o -> forall (n : nat) (Ql : lmat R) (terms : nat), is_identity o n (get o (taylor o n (lscale o n (fzero o) Ql) terms)).
Proof. exact taylor_zero_identity. Qed.

(** (taylor(A/2^s))^(2^s): rows sum to one *)
Theorem scaling_squaring_rows_sum_to_one : forall (R : Type) (o : fld_ops R), fld_laws o -> forall (n : nat) (Al : lmat R) (s terms : nat), rate_rows_zero o n (get o Al) -> row_stochastic o n (get o (expm_ss o n Al s terms)).
Proof. exact expm_ss_row_stochastic. Qed.

(** (taylor(A/2^s))^(2^s) preserves π *)
Theorem scaling_squaring_keeps_pi : forall (R : Type) (o : fld_ops R), fld_laws o -> forall (n : nat) (p : nat -> R) (Al : lmat R) (s terms : nat), stationary o n p (get o Al) -> preserves o n p (get o (expm_ss o n Al s terms)).
Proof. exact expm_ss_preserves. Qed.

(** (taylor(A/2^s))^(2^s) keeps detailed balance *)
Theorem scaling_squaring_detailed_balance : forall (R : Type) (o : fld_ops R), fld_laws o -> forall (n : nat) (p : nat -> R) (Al : lmat R) (s terms : nat), reversible o n p (get o Al) -> reversible o n p (get o (expm_ss o n Al s terms)).
Proof. exact expm_ss_reversible. Qed.

(** PadeExponentiator numerator and denominator are polynomials in A *)
Theorem pade_ND_are_polynomials : forall (R : Type) (o : fld_ops R), fld_laws o -> forall (n q : nat) (Al : lmat R) (a : R), polyev o n (get o Al) a (get o (fst (pade_ND o n q Al))) (fst (pade_ND_s o q a)) /\ polyev o n (get o Al) a (get o (snd (pade_ND o n q Al))) (snd (pade_ND_s o q a)).
Proof. exact pade_polyev. Qed.

(** Padé result (any order q, any number j of squarings) has rows summing to one, given D·F = N and D invertible *)
Theorem pade_rows_sum_to_one : forall (R : Type) (o : fld_ops R), fld_laws o -> forall (n q j : nat) (Al Fl : lmat R) (Dinv : fmat R), rate_rows_zero o n (get o Al) -> meq n (mmul o n Dinv (get o (snd (pade_ND o n q Al)))) (mI o) -> meq n (mmul o n (get o (snd (pade_ND o n q Al))) (get o Fl)) (get o (fst (pade_ND o n q Al))) -> row_stochastic o n (get o (squarings o n Fl j)).
Proof. exact pade_row_stochastic. Qed.

(** Padé result preserves π *)
Theorem pade_keeps_pi : forall (R : Type) (o : fld_ops R), fld_laws o -> forall (n q j : nat) (p : nat -> R) (Al Fl : lmat R) (Dinv : fmat R), stationary o n p (get o Al) -> meq n (mmul o n Dinv (get o (snd (pade_ND o n q Al)))) (mI o) -> meq n (mmul o n (get o (snd (pade_ND o n q Al))) Dinv) (mI o) -> meq n (mmul o n (get o (snd (pade_ND o n q Al))) (get o Fl)) (get o (fst (pade_ND o n q Al))) -> preserves o n p (get o (squarings o n Fl j)).
Proof. exact pade_preserves. Qed.

(** Padé at length zero returns the identity *)
Theorem pade_identity_at_zero : forall (R : Type) (o : fld_ops R), fld_laws o -> forall (n : nat) (Ql Fl : lmat R), meq n (mmul o n (get o (snd (pade_ND o n 1 (lscale o n (fzero o) Ql)))) (get o Fl)) (get o (fst (pade_ND o n 1 (lscale o n (fzero o) Ql)))) -> is_identity o n (get o Fl).
Proof. exact pade_zero_identity. Qed.

(** eigen form: P(s)P(t) = P(s+t) exactly when evI^T evT = I and exp is multiplicative *)
Theorem eigen_chapman_kolmogorov : forall (R : Type) (o : fld_ops R), fld_laws o -> forall (n : nat) (evT evI : fmat R) (ea eb eab : nat -> R), (forall k m : nat, k < n -> m < n -> sumn o n (fun l : nat => fmul o (evI l k) (evT l m)) = (if k =? m then fone o else fzero o)) -> (forall k : nat, k < n -> eab k = fmul o (ea k) (eb k)) -> meq n (mmul o n (eigen_P o n evT evI ea) (eigen_P o n evT evI eb)) (eigen_P o n evT evI eab).
Proof. exact eigen_semigroup. Qed.

(** eigen form at length zero is the identity *)
Theorem eigen_identity_at_zero : forall (R : Type) (o : fld_ops R), fld_laws o -> forall (n : nat) (evT evI : fmat R) (e : nat -> R), (forall i j : nat, i < n -> j < n -> sumn o n (fun k : nat => fmul o (evT i k) (evI j k)) = (if i =? j then fone o else fzero o)) -> (forall k : nat, k < n -> e k = fone o) -> is_identity o n (eigen_P o n evT evI e).
Proof. exact eigen_zero_identity. Qed.

(** eigen form: rows sum to one when Q = U diag(lam) W has zero row sums, UW = WU = I, and e = 1 at zero eigenvalues *)
Theorem eigen_rows_sum_to_one : forall (R : Type) (o : fld_ops R), fld_laws o -> forall (n : nat) (evT evI : fmat R) (lam e : nat -> R) (Q : fmat R), (forall k m : nat, k < n -> m < n -> sumn o n (fun l : nat => fmul o (evI l k) (evT l m)) = (if k =? m then fone o else fzero o)) -> (forall i j : nat, i < n -> j < n -> sumn o n (fun k : nat => fmul o (evT i k) (evI j k)) = (if i =? j then fone o else fzero o)) -> meq n Q (eigen_P o n evT evI lam) -> rate_rows_zero o n Q -> (forall k : nat, k < n -> lam k = fzero o -> e k = fone o) -> (forall k : nat, k < n -> lam k = fzero o \/ lam k <> fzero o) -> row_stochastic o n (eigen_P o n evT evI e).
Proof. exact eigen_row_stochastic. Qed.

(** WeightedPartitionDefn: Σ w_b rate_b = 1 *)
Theorem rate_classes_mean_one_weighted : forall (R : Type) (o : fld_ops R), fld_laws o -> forall w v : list R, suml o (map (fun wv : R * R => fmul o (fst wv) (snd wv)) (combine w v)) <> fzero o -> suml o (map (fun wr : R * R => fmul o (fst wr) (snd wr)) (combine w (weighted_partition o w v))) = fone o.
Proof. exact weighted_partition_mean_one. Qed.

(** MonotonicDefn: Σ w_b rate_b = 1 *)
Theorem rate_classes_mean_one_monotonic : forall (R : Type) (o : fld_ops R), fld_laws o -> forall w inc : list R, suml o (map (fun wv : R * R => fmul o (fst wv) (snd wv)) (combine w (accumulate o (fzero o) inc))) <> fzero o -> suml o (map (fun wr : R * R => fmul o (fst wr) (snd wr)) (combine w (monotonic o w inc))) = fone o.
Proof. exact monotonic_mean_one. Qed.

(** GammaDefn: Σ w'_b rate_b = 1 for the normalised bin weights *)
Theorem rate_classes_mean_one_gamma : forall (R : Type) (o : fld_ops R), fld_laws o -> forall w med : list R, let w' := map (fun x : R => fdiv o x (suml o w)) w in suml o (map (fun mw : R * R => fmul o (fst mw) (snd mw)) (combine med w')) <> fzero o -> suml o (map (fun wr : R * R => fmul o (fst wr) (snd wr)) (combine w' (gamma_rates o w med))) = fone o.
Proof. exact gamma_mean_one. Qed.

(** calibrated Q + mean-one rate classes: expected substitutions over the mixture = branch length *)
Theorem branch_length_is_expected_substitutions : forall (R : Type) (o : fld_ops R), fld_laws o -> forall (n : nat) (p : nat -> R) (Q : fmat R) (w r : list R) (t : R), calibrated o n p Q -> suml o (map (fun wr : R * R => fmul o (fst wr) (snd wr)) (combine w r)) = fone o -> suml o (map (fun wr : R * R => fmul o (fst wr) (fmul o (fmul o (snd wr) t) (fopp o (sumn o n (fun i : nat => fmul o (p i) (Q i i)))))) (combine w r)) = t.
Proof. exact mixture_expected_rate. Qed.

(** x / Σx sums to one *)
Theorem normalised_vector_sums_to_one : forall (R : Type) (o : fld_ops R), fld_laws o -> forall raw : list R, suml o raw <> fzero o -> suml o (normalise o raw) = fone o.
Proof. exact normalise_sum_one. Qed.

(** MonomerProbModel.calc_word_probs: Σ word_probs = 1 over the model's own states (sense codons, motif subsets) *)
Theorem word_probs_sum_to_one_monomer : forall (R : Type) (o : fld_ops R), fld_laws o -> forall (words : list (list nat)) (mon : list R), suml o (map (fun w : list nat => prodl o (map (vget o mon) w)) words) <> fzero o -> suml o (monomer_word_probs o words mon) = fone o.
Proof. exact monomer_word_probs_sum_one. Qed.

(** PosnSpecificMonomerProbModel.calc_word_probs: Σ word_probs = 1 over the model's own states *)
Theorem word_probs_sum_to_one_monomers : forall (R : Type) (o : fld_ops R), fld_laws o -> forall (words : list (list nat)) (mons : list (list R)), suml o (map (prod_pos o mons) words) <> fzero o -> suml o (posn_word_probs o words mons) = fone o.
Proof. exact posn_word_probs_sum_one. Qed.

(** PosnSpecificMonomerProbModel: π_i M_ij = π_j M_ji (so reversible_model gives zero rows, balance, stationarity, calibration for it) *)
Theorem balanced_monomers : forall (R : Type) (o : fld_ops R), fld_laws o -> forall (len : nat) (words : list (list nat)) (mons : list (list R)), same_length len words -> balanced o (length words) (vget o (posn_word_probs o words mons)) (get o (mpm_posn o (length words) words (inst_mask words) mons)).
Proof. exact posn_balanced. Qed.

(** GeneralStationary: if the requirement of SOME dependent column is negative the model refuses (None = ParameterOutOfBoundsError), whichever column it is *)
Theorem general_stationary_refuses : forall (R : Type) (o : fld_ops R) (neg near0 : R -> bool), (forall x : R, near0 x = true -> neg x = false) -> forall (n : nat) (mp : list R) (m : nat) (js : list nat) (Rl : lmat R), NoDup js -> ~ In m js -> (forall j : nat, In j js -> j < n) -> (exists b : nat, In b js /\ neg (gs_required o n (vget o mp) (get o Rl) b) = true) -> gs_loop o neg near0 n mp (map (pair m) js) Rl = None.
Proof. exact gs_loop_refuses. Qed.

(** GeneralStationary: when the guard passes for every dependent column, EVERY column j has Σ_i π_i R_ij = Σ_k R_jk π_k *)
Theorem general_stationary_columns_balanced : forall (R : Type) (o : fld_ops R), fld_laws o -> forall neg near0 : R -> bool, (forall x : R, near0 x = true -> neg x = false) -> forall (n : nat) (mp : list R) (m : nat) (js : list nat) (Rl Rf : lmat R), NoDup js -> ~ In m js -> (forall j : nat, In j js -> j < n) -> m < n -> (forall b : nat, b < n -> b <> m -> In b js) -> (forall b : nat, In b js -> get o Rl m b = fzero o) -> vget o mp m <> fzero o -> gs_loop o neg near0 n mp (map (pair m) js) Rl = Some Rf -> forall j : nat, j < n -> gs_required o n (vget o mp) (get o Rf) j = fzero o.
Proof. exact gs_column_balance. Qed.

(** column balance of R is exactly πQ = 0 for StationaryQ.calcQ — no reversibility needed *)
Theorem column_balance_gives_stationarity : forall (R : Type) (o : fld_ops R), fld_laws o -> forall (n : nat) (wp : nat -> R) (Rm : fmat R), (forall j : nat, j < n -> gs_required o n wp Rm j = fzero o) -> stationary o n wp (calcQ_f o n wp (hadamard o Rm (fun _ j : nat => wp j))).
Proof. exact column_balance_stationary. Qed.

(** assembled GeneralStationary model: zero rows, πQ = 0 without detailed balance, calibration *)
Theorem general_stationary_is_stationary : forall (R : Type) (o : fld_ops R), fld_laws o -> forall neg near0 : R -> bool, (forall x : R, near0 x = true -> neg x = false) -> forall (n : nat) (mp : list R) (m : nat) (js : list nat) (Rl Rf : lmat R), NoDup js -> ~ In m js -> (forall j : nat, In j js -> j < n) -> m < n -> (forall b : nat, b < n -> b <> m -> In b js) -> (forall b : nat, In b js -> get o Rl m b = fzero o) -> (forall a : nat, a < n -> get o Rl a a = fzero o) -> vget o mp m <> fzero o -> gs_loop o neg near0 n mp (map (pair m) js) Rl = Some Rf -> let Q := get o (calcQ_stationary o n mp (mpm_simple o n mp) Rf) in rate_rows_zero o n Q /\ stationary o n (vget o mp) Q /\ (sumn o n (fun i : nat => fmul o (vget o mp i) (row_total o n (hadamard o (get o Rf) (get o (mpm_simple o n mp))) i)) <> fzero o -> calibrated o n (vget o mp) Q).
Proof. exact general_stationary_model. Qed.

(** GeneralStationary: accepted parameter vectors give non-negative exchangeabilities (hence non-negative off-diagonals of Q by Q_offdiag_nonneg) *)
Theorem general_stationary_nonneg : forall (R : Type) (o : fld_ops R) (le : R -> R -> Prop), (forall a b : R, le (fzero o) a -> le (fzero o) b -> le (fzero o) (fmul o a b)) -> (forall a : R, le (fzero o) a -> le (fzero o) (finv o a)) -> forall neg near0 : R -> bool, (forall x : R, near0 x = true -> neg x = false) -> (forall x : R, neg x = false -> le (fzero o) x) -> forall (n : nat) (mp : list R) (m : nat) (js : list nat) (Rl Rf : lmat R), NoDup js -> ~ In m js -> (forall j : nat, In j js -> j < n) -> m < n -> (forall a b : nat, a < n -> b < n -> le (fzero o) (get o Rl a b)) -> le (fzero o) (vget o mp m) -> gs_loop o neg near0 n mp (map (pair m) js) Rl = Some Rf -> forall a b : nat, a < n -> b < n -> le (fzero o) (get o Rf a b).
Proof. exact gs_exchangeabilities_nonneg. Qed.

(** ns_substitution_model.General: calibrated generator for every parameter vector; every scaling-and-squaring Taylor P is row-stochastic *)
Theorem general_model_free_rates : forall (R : Type) (o : fld_ops R), fld_laws o -> forall (n : nat) (params : list R) (pick : list (list nat)) (wpl : list R), (forall a : nat, a < n -> nth a (nth a pick nil) 0 = 0) -> let Rl := take_pick o n params pick in let Ql := calcQ_general o n wpl Rl in rate_rows_zero o n (get o Ql) /\ (sumn o n (fun i : nat => fmul o (vget o wpl i) (row_total o n (get o Rl) i)) <> fzero o -> calibrated o n (vget o wpl) (get o Ql)) /\ (forall (t : R) (s terms : nat), row_stochastic o n (get o (expm_ss o n (lscale o n t Ql) s terms))).
Proof. exact general_pick_model. Qed.

(** the variant with the feasibility guard moved out of the loop accepts a vector the model refuses and returns a negative rate (witness over Qc) *)
Theorem guard_after_loop_variant_unsound : gs_exchangeability Examples.Fq Qc_neg Qc_is0 4 Examples.pi_eq Examples.bad9 Examples.gs_pick Examples.gs_lic = None /\ (exists Rf : lmat Qcanon.Qc, gs_exchangeability_guard_after_loop Examples.Fq Qc_neg Qc_is0 4 Examples.pi_eq Examples.bad9 Examples.gs_pick Examples.gs_lic = Some Rf /\ Qc_neg (get Examples.Fq Rf 3 0) = true).
Proof. exact Examples.gs_guard_after_loop_unsound. Qed.

(** maths.util.ratios_to_proportions: the proportions add up to the total for EVERY ratio vector *)
Theorem discrete_partition_sums_to_total : forall (R : Type) (o : fld_ops R), fld_laws o -> forall (fuel : nat) (total : R) (params : list R), suml o (ratios_to_proportions o fuel total params) = total.
Proof. exact ratios_to_proportions_sum. Qed.

(** every row of a BH/DT transition matrix (PsubMatrixDefn: one partition per row) sums to one *)
Theorem discrete_psub_rows_sum_to_one : forall (R : Type) (o : fld_ops R), fld_laws o -> forall ratios : list R, suml o (psub_row o ratios) = fone o.
Proof. exact psub_row_sums_to_one. Qed.

(** ... and is non-negative for non-negative ratios (ordered field) *)
Theorem discrete_psub_entries_nonneg : forall (R : Type) (o : fld_ops R), fld_laws o -> forall le : R -> R -> Prop, le (fzero o) (fone o) -> (forall a b : R, le (fzero o) a -> le (fzero o) b -> le (fzero o) (fadd o a b)) -> (forall a b : R, le (fzero o) a -> le (fzero o) b -> le (fzero o) (fmul o a b)) -> (forall a : R, le (fzero o) a -> le (fzero o) (finv o a)) -> forall (fuel : nat) (total : R) (params : list R), le (fzero o) total -> Forall (fun r : R => le (fzero o) r /\ fadd o r (fone o) <> fzero o) params -> Forall (fun x : R => le (fzero o) x) (ratios_to_proportions o fuel total params).
Proof. exact ratios_to_proportions_nonneg. Qed.

(** Full statements that are NOT proved here (they need the limit of the
    series, i.e. real analysis of the matrix exponential): kept visible as
    definitions, covered by the numerical correspondence only.
    [taylor_semigroup_partial], [eigen_chapman_kolmogorov] and the row-sum /
    stationarity theorems above are the proved parts. *)
Definition stmt_transition_probabilities_nonneg : Prop :=
  forall (n : nat) (Ql : lmat Qc),
    rate_rows_zero Qc_fld n (get Qc_fld Ql) ->
    (forall i j, (i < n)%nat -> (j < n)%nat -> i <> j -> Qcle (fzero Qc_fld) (get Qc_fld Ql i j)) ->
    exists N0, forall terms, (N0 <= terms)%nat ->
      forall i j, (i < n)%nat -> (j < n)%nat -> Qcle (fzero Qc_fld) (get Qc_fld (taylor Qc_fld n Ql terms) i j).

Definition stmt_taylor_semigroup_in_the_limit : Prop :=
  forall (n : nat) (Ql : lmat Qc) (s t eps : Qc), Qclt (fzero Qc_fld) eps ->
    exists N0, forall terms, (N0 <= terms)%nat ->
      forall i j, (i < n)%nat -> (j < n)%nat ->
        let Ps := get Qc_fld (taylor Qc_fld n (lscale Qc_fld n s Ql) terms) in
        let Pt := get Qc_fld (taylor Qc_fld n (lscale Qc_fld n t Ql) terms) in
        let Pst := get Qc_fld (taylor Qc_fld n (lscale Qc_fld n (fadd Qc_fld s t) Ql) terms) in
        let d := fsub Qc_fld (mmul Qc_fld n Ps Pt i j) (Pst i j) in
        Qclt (fopp Qc_fld eps) d /\ Qclt d eps.
