(** C13 — temporary stub, replaced below in this session *)
From CG3 Require Import Lib.PyZ Lib.Chars Model.DataStore.
Theorem stub_tmp : ds_reopen (ds_new [] MW) MW = ds_new [] MW.
Proof. exact (eq_refl _). Qed.
