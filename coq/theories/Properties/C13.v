(** C13 — Data stores hold exactly what was written, record by record.
    Only theorem statements; every proof is [exact <lemma>].

    Objects:
      [Model.DataStore] / [Model.SqlStore]   the two stores, transcribed from the code, with one
                                            boolean per proposed patch ([variant]); [pinned] is the
                                            code as found, [repaired] the code with the six patches
                                            notes/proposed_fixes/C13-1..6.diff
      [Spec.DataStoreSpec]                  the dictionary: two tables name -> content, [sp_step]
      [dir_obs_match] / [sql_obs_match]     what a client sees (member listings after the lazy
                                            cache refresh, content and checksum of every member)
                                            equals the dictionary
    Histories are arbitrary lists of operations (write, write_not_completed, write_log,
    drop_not_completed(id), drop_not_completed(), close + re-open in a mode), run from a new store
    with [fold_left]; every prefix of a history is a history, a freshly re-opened store is the
    history followed by [OReopen]. *)
From Coq Require Import ZArith List Bool.
From CG3 Require Import Lib.PyZ Lib.Chars Model.DataStore Model.SqlStore Spec.DataStoreSpec.
From CG3 Require Import Proofs.SqlStoreProofs Proofs.DataStoreProofs Proofs.DataStoreNames Proofs.DsNamesEq.
From CG3 Require Import Lib.PyStr Lib.Val.
From CG3gen Require Import DsNamesGen.
Import ListNotations.

(** ---------------------------------------------------------------- directory store *)

(** After ANY history of operations on well-formed identifiers in which no
    not-completed record is written over a completed one, the (repaired)
    directory store shows exactly the dictionary: same completed / not-completed
    membership (no duplicates, caches in step with the disk), same content and
    same checksum for every member, same mode. *)
Theorem dir_refines_dict : forall sfx m ops,
  wf_sfx sfx = true -> forallb (dir_wf_op sfx) ops = true ->
  no_nc_over_completed dir_policy (d_new m) (map (dir_aop sfx) ops) = true ->
  dir_obs_match sfx (ds_run (ds_new sfx m) ops) (sp_run dir_policy (d_new m) (map (dir_aop sfx) ops)).
Proof. exact dir_refines_dict_all. Qed.

(** the same for a purely syntactic class of identifiers: the store suffix is a non-empty
    lower-case string without '.' and '/', not a compression suffix and not "log"; every
    identifier is a non-empty string without '.' and '/', optionally followed by ".<suffix>"
    (so: names that are suffixes / prefixes of one another, names containing the suffix text,
    with and without the format suffix) *)
Theorem dir_refines_dict_plain_ids : forall sfx m ops,
  plain_sfx sfx = true -> forallb (plain_dir_op sfx) ops = true ->
  no_nc_over_completed dir_policy (d_new m) (map (dir_aop sfx) ops) = true ->
  dir_obs_match sfx (ds_run (ds_new sfx m) ops) (sp_run dir_policy (d_new m) (map (dir_aop sfx) ops)).
Proof. exact dir_refines_dict_plain. Qed.

Theorem plain_ids_example :
  plain_sfx s_fasta = true /\
  forallb (plain_did s_fasta) [[97]; [98;97]; [97;98]; [97;46;102;97;115;116;97]; [102;97;115;116;97;95;97];
                               [102;97;115;116;97]; [83;69;81;45;49]] = true.
Proof. exact plain_example. Qed.

(** the hypotheses are satisfiable by identifiers that are suffixes and prefixes
    of one another, with and without the format suffix, and by identifiers that
    contain the suffix text *)
Theorem separated_example :
  wf_sfx s_fasta = true /\
  forallb (wf_id s_fasta) [[97]; [98;97]; [97;98]; [97;46;102;97;115;116;97]; [97;98;46;102;97;115;116;97];
                          [102;97;115;116;97;95;97]; [106;115;111;110;95;97];
                          [102;97;115;116;97;95;115;101;113;46;102;97;115;116;97]; [99;49]; [120;95;121;45;122]] = true.
Proof. exact dir_wf_example. Qed.

(** ... and by EVERY non-empty identifier of a completely enumerated scope: length <= 5 over
    {a,b,f,s,t,j,_,1} (includes "fasta", "fast", "a_b"), length <= 4 over {a,j,s,o,n,t,x}
    (includes "json", "txt"), each with and without ".fasta" appended (37448 + 2800 words) *)
Theorem separated_small_scope : forall w,
  In w (nonempty_words alpha1 5) \/ In w (nonempty_words alpha2 4) ->
  wf_id s_fasta w = true /\ wf_id s_fasta (w ++ ch_dot :: s_fasta) = true.
Proof. exact wf_small_scope. Qed.

Theorem history_example :
  forallb (dir_wf_op s_fasta) example_history = true /\
  no_nc_over_completed dir_policy (d_new MW) (map (dir_aop s_fasta) example_history) = true.
Proof. exact dir_hist_example. Qed.

(** the statement of [dir_refines_dict] about the code AS FOUND ([pinned]) — it is false: *)
Definition stmt_dir_refines_dict_pinned : Prop := forall sfx m ops,
  wf_sfx sfx = true -> forallb (dir_wf_op sfx) ops = true ->
  no_nc_over_completed dir_policy (d_new m) (map (dir_aop sfx) ops) = true ->
  dir_obs_match sfx (ds_runv pinned (ds_new sfx m) ops) (sp_run dir_policy (d_new m) (map (dir_aop sfx) ops)).

Theorem dir_refines_dict_pinned_refuted : ~ stmt_dir_refines_dict_pinned.
Proof. exact pinned_statement_false. Qed.

(** the code as found violates the unguarded statement, once per missing patch *)

(** write('a') deletes the not-completed record 'ba' (drop by [endswith]) *)
Theorem unseparated_refuted :
  exists ops, forallb (dir_wf_op s_fasta) ops = true /\
    let s := ds_runv (only 1) (ds_new s_fasta MW) ops in
    let d := sp_run dir_policy (d_new MW) (map (dir_aop s_fasta) ops) in
    dn d [98;97] = Some [100;48] /\ nc_ids s = [].
Proof. exact dir_endswith_refuted. Qed.

(** identifier containing the suffix text: checksum file under another name; record under another name *)
Theorem suffix_text_refuted :
  (exists ops, forallb (dir_wf_op s_fasta) ops = true /\
    let s := ds_runv (only 2) (ds_new s_fasta MW) ops in
    let d := sp_run dir_policy (d_new MW) (map (dir_aop s_fasta) ops) in
    dc d [102;97;115;116;97;95;115;101;113] = Some [100;48] /\
    c_ids s = [[102;97;115;116;97;95;115;101;113;46;102;97;115;116;97]] /\
    ds_md5 s [102;97;115;116;97;95;115;101;113;46;102;97;115;116;97] = None) /\
  (exists ops, forallb (dir_wf_op s_fasta) ops = true /\
    let s := ds_runv (only 2) (ds_new s_fasta MW) ops in
    let d := sp_run dir_policy (d_new MW) (map (dir_aop s_fasta) ops) in
    dn d [102;97;115;116;97;95;97] = Some [100;48] /\
    nc_ids s = [[110;111;116;95;99;111;109;112;108;101;116;101;100;47;106;115;111;110;95;97;46;106;115;111;110]]).
Proof. exact dir_suffix_text_refuted. Qed.

(** completing a record that failed before deletes the checksum just written *)
Theorem write_over_not_completed_refuted :
  exists ops, forallb (dir_wf_op s_fasta) ops = true /\
    no_nc_over_completed dir_policy (d_new MW) (map (dir_aop s_fasta) ops) = true /\
    let s := ds_runv (only 3) (ds_new s_fasta MW) ops in
    let d := sp_run dir_policy (d_new MW) (map (dir_aop s_fasta) ops) in
    dc d [97] = Some [100;49] /\ ds_read s [97;46;102;97;115;116;97] = Some [100;49] /\
    ds_md5 s [97;46;102;97;115;116;97] = None.
Proof. exact dir_write_over_nc_refuted. Qed.

(** a read-only directory store deletes records *)
Theorem readonly_drop_refuted :
  exists ops, forallb (dir_wf_op s_fasta) ops = true /\
    let s := ds_runv (only 4) (ds_new s_fasta MW) ops in
    let d := sp_run dir_policy (d_new MW) (map (dir_aop s_fasta) ops) in
    dm d = MR /\ dn d [97] = Some [100;48] /\ nc_ids s = [].
Proof. exact dir_readonly_drop_refuted. Qed.

(** overwrite mode silently keeps the old content *)
Theorem overwrite_ignored_refuted :
  exists ops, forallb (dir_wf_op s_fasta) ops = true /\
    let s := ds_runv (only 5) (ds_new s_fasta MW) ops in
    let d := sp_run dir_policy (d_new MW) (map (dir_aop s_fasta) ops) in
    dc d [97] = Some [100;49] /\ ds_read s [97;46;102;97;115;116;97] = Some [100;48].
Proof. exact dir_presence_refuted. Qed.

(** a second not-completed write of the same name lists the member twice *)
Theorem duplicate_member_refuted :
  exists ops, forallb (dir_wf_op s_fasta) ops = true /\
    nc_ids (ds_runv (only 5) (ds_new s_fasta MW) ops)
    = [[110;111;116;95;99;111;109;112;108;101;116;101;100;47;97;46;106;115;111;110];
       [110;111;116;95;99;111;109;112;108;101;116;101;100;47;97;46;106;115;111;110]].
Proof. exact dir_duplicate_member_refuted. Qed.

(** even with every patch the two hypotheses of [dir_refines_dict] are necessary *)
Theorem nc_over_completed_refuted :
  exists ops, forallb (dir_wf_op s_fasta) ops = true /\
    let s := ds_runv repaired (ds_new s_fasta MW) ops in
    let d := sp_run dir_policy (d_new MW) (map (dir_aop s_fasta) ops) in
    dc d [97] = Some [100;48] /\ ds_read s [97;46;102;97;115;116;97] = Some [100;48] /\
    ds_md5 s [97;46;102;97;115;116;97] = Some [100;49].
Proof. exact dir_nc_over_completed_refuted. Qed.

Theorem dotted_ids_refuted :
  exists ops,
    let s := ds_runv repaired (ds_new s_fasta MW) ops in
    let d := sp_run dir_policy (d_new MW) (map (dir_aop s_fasta) ops) in
    dc d [103;46;118;49] = Some [100;48] /\ dc d [103;46;118;50] = Some [100;49] /\
    c_ids s = [[103;46;102;97;115;116;97]].
Proof. exact dir_dotted_ids_refuted. Qed.

(** the three sentences about single operations, on the directory store itself:
    before and after any further operation [o] the store shows the dictionaries
    [d] and [d'], and
    - a record named by no argument of [o] is the same in [d] and [d'],
    - in append mode a completed record keeps its content,
    - in read-only mode nothing changes. *)
Theorem dir_single_operation_facts : forall sfx m ops o,
  wf_sfx sfx = true -> forallb (dir_wf_op sfx) (ops ++ [o]) = true ->
  no_nc_over_completed dir_policy (d_new m) (map (dir_aop sfx) (ops ++ [o])) = true ->
  let d := sp_run dir_policy (d_new m) (map (dir_aop sfx) ops) in
  let d' := sp_step dir_policy d (dir_aop sfx o) in
  dir_obs_match sfx (ds_run (ds_new sfx m) ops) d /\
  dir_obs_match sfx (ds_run (ds_new sfx m) (ops ++ [o])) d' /\
  (forall x, ~ In x (names_of (dir_aop sfx o)) ->
     dc d' x = dc d x /\ (dir_aop sfx o <> ADropAll -> dn d' x = dn d x)) /\
  (dm d = MA -> (forall m', o <> OReopen m') -> forall x v, dc d x = Some v -> dc d' x = Some v) /\
  (dm d = MR -> (forall m', o <> OReopen m') -> d' = d).
Proof. exact dir_store_step_facts. Qed.

(** ---------------------------------------------------------------- sqlite store *)

(** After ANY history of well-formed operations the sqlite store (with patch
    C13-6) shows exactly the dictionary. *)
Theorem sql_refines_dict : forall v m ops,
  v_sqlupd v = true -> forallb sql_wf_op ops = true ->
  sql_obs_match (sq_run v (sq_new m) ops) (sp_run sql_policy (d_new m) (map sql_aop ops)).
Proof. exact sql_refines_dict_all. Qed.

(** a syntactic class of well-formed histories: every identifier non-empty and without '/' *)
Theorem sql_refines_dict_plain_ids : forall v m ops,
  v_sqlupd v = true -> forallb plain_op ops = true ->
  sql_obs_match (sq_run v (sq_new m) ops) (sp_run sql_policy (d_new m) (map sql_aop ops)).
Proof. exact sql_refines_dict_plain. Qed.

Theorem sql_wf_nonvacuous :
  forallb sql_wf_op
    [OWriteNC [98;97] [100]; OWrite [97] [101]; OWrite (s_results_slash ++ [98;97]) [102];
     ODrop [97]; OReopen MA; OWriteNC [97;46;102;97;115;116;97] [103]; ODropAll; OWriteLog [108] [104]] = true.
Proof. exact sql_wf_example. Qed.

(** the code as found: write(a); write_not_completed(a) in overwrite mode updates
    the data and leaves the record listed as completed *)
Theorem sql_phantom_completed_refuted :
  exists ops, forallb sql_wf_op ops = true /\
    let s := sq_run pinned (sq_new MW) ops in
    let d := sp_run sql_policy (d_new MW) (map sql_aop ops) in
    dn d [97] = Some [101] /\ snd (sq_nc_prop (fst (sq_completed_prop s))) = [].
Proof. exact sql_pinned_refuted. Qed.

(** ---------------------------------------------------------------- the dictionary itself *)

(** An operation on one name never changes another record (only drop-all touches
    other not-completed records) *)
Theorem others_untouched : forall p s o x,
  ~ In x (names_of o) ->
  dc (sp_step p s o) x = dc s x /\ (o <> ADropAll -> dn (sp_step p s o) x = dn s x).
Proof. exact sp_others_untouched. Qed.

(** append mode never overwrites a completed record; a not-completed record can only be
    completed, dropped, or (directory store policy) replaced by the not-completed record of a re-run *)
Theorem append_never_overwrites : forall p s o x v,
  dm s = MA -> (forall m, o <> AReopen m) ->
  (dc s x = Some v -> dc (sp_step p s o) x = Some v) /\
  (dn s x = Some v -> dn (sp_step p s o) x = Some v \/ (exists d, o = AWrite x d) \/ o = ADrop x \/ o = ADropAll
                      \/ (append_rewrites_nc p = true /\ exists d, o = AWriteNC x d)).
Proof. exact sp_append_never_overwrites. Qed.

(** read-only mode never mutates *)
Theorem readonly_never_mutates : forall p s o,
  dm s = MR -> (forall m, o <> AReopen m) -> sp_step p s o = s.
Proof. exact sp_readonly_never_mutates. Qed.

(** ---------------------------------------------------------------- translator tie
    gen/DsNamesGen.v is regenerated on every run from the CURRENT text of
    DataStoreDirectory.__contains__ / _write / drop_not_completed / md5 and of
    DataStoreSqlite.write / write_not_completed / write_log (harness/translators/ds_names.py).
    Each generated name computation equals the function of the model the refinement theorems
    are about - for all strings, or (where the source goes through a regular expression) for
    every store suffix without a '.'. *)

Theorem gen_contains_key : forall sfx item,
  DsNamesGen.contains_key sfx item = contains_key repaired sfx item.
Proof. exact contains_key_eq. Qed.

Theorem gen_write_name : forall self_sfx suffix uid,
  ~ In ch_dot self_sfx -> DsNamesGen.write_name self_sfx suffix uid = write_name repaired self_sfx suffix uid.
Proof. exact write_name_eq. Qed.

Theorem gen_md5_write_name : forall suffix fname,
  ~ In ch_dot suffix -> DsNamesGen.md5_write_name suffix None fname = md5_write_name repaired suffix fname.
Proof. exact md5_write_name_eq. Qed.

Theorem gen_nc_member_id : forall fname, DsNamesGen.nc_member_id fname = s_nc_prefix ++ fname.
Proof. exact nc_member_id_eq. Qed.

Theorem gen_drop_pattern : forall sfx uid, DsNamesGen.drop_pattern sfx uid = drop_pattern sfx uid.
Proof. exact drop_pattern_eq. Qed.

(** one round of the loop of drop_not_completed of the model IS the generated skip test,
    record file and md5 file *)
Theorem gen_drop_loop_step : forall pat m rest s,
  drop_loop repaired pat (m :: rest) s =
  if DsNamesGen.drop_skip pat m then drop_loop repaired pat rest s
  else
    match d_nc s with
    | None => (s, Some E_IO)
    | Some ncm =>
        if fm_mem ncm (DsNamesGen.drop_file m) then
          let s1 := with_nc s (Some (fm_del ncm (DsNamesGen.drop_file m))) in
          if fm_mem (d_md5 s1) (DsNamesGen.drop_md5_file m) then
            let s2 := with_md5 s1 (fm_del (d_md5 s1) (DsNamesGen.drop_md5_file m)) in
            let (s3, l) := nc_prop s2 in
            if mem_str m l then drop_loop repaired pat rest (with_ncache s3 (remove_first m l))
            else (s3, Some E_Value)
          else (s1, Some E_IO)
        else (s, Some E_IO)
    end.
Proof. exact drop_loop_gen. Qed.

Theorem gen_md5_lookup_name : forall sfx uid,
  ~ In ch_dot sfx -> DsNamesGen.md5_lookup_name sfx uid = md5_lookup_name sfx uid.
Proof. exact md5_lookup_name_eq. Qed.

Theorem gen_sq_write_id : forall uid, DsNamesGen.sq_write_id uid = strip_table s_results uid.
Proof. exact sq_write_id_eq. Qed.

Theorem gen_sq_write_nc_id : forall uid, DsNamesGen.sq_write_nc_id uid = strip_table s_results uid.
Proof. exact sq_write_nc_id_eq. Qed.

Theorem gen_sq_write_log_id : forall uid, DsNamesGen.sq_write_log_id uid = strip_table s_logs uid.
Proof. exact sq_write_log_id_eq. Qed.

(** the regular expression  [.]LIT(?=[.]|$)  (scanned left to right, Lib/PyStr.v) replaces
    exactly the dotted components equal to LIT *)
Theorem gen_regex_is_component_replacement : forall s lit new,
  ~ In ch_dot lit -> re_sub_dot_lit_la s lit (ch_dot :: new) = replace_comp s lit new.
Proof. exact re_sub_is_replace_comp. Qed.

(** on the syntactic class of [dir_refines_dict_plain_ids] the name computations of the current
    source are canonical: x and x.<suffix> both lead to x.<suffix>, x.json, x.txt *)
Theorem gen_canonical_names : forall sfx x,
  plain_sfx sfx = true -> plain_did sfx x = true ->
  let k := dir_lid sfx x in
  DsNamesGen.contains_key sfx x = cfile sfx k /\
  DsNamesGen.write_name sfx sfx x = (cfile sfx k, None) /\
  DsNamesGen.write_name sfx s_json x = (nfile k, None) /\
  DsNamesGen.md5_write_name sfx None (cfile sfx k) = mfile k /\
  DsNamesGen.md5_write_name s_json None (nfile k) = mfile k /\
  DsNamesGen.nc_member_id (nfile k) = nmem k /\
  DsNamesGen.drop_pattern sfx x = nfile k /\
  DsNamesGen.drop_file (nmem k) = nfile k /\
  DsNamesGen.drop_md5_file (nmem k) = mfile k /\
  DsNamesGen.md5_lookup_name sfx (cfile sfx k) = mfile k /\
  DsNamesGen.md5_lookup_name sfx (nmem k) = mfile k.
Proof. exact gen_canonical. Qed.

(** ... and drop_not_completed(x) skips exactly the members that are not x (no endswith) *)
Theorem gen_drop_skips_exactly_the_others : forall sfx x y,
  plain_sfx sfx = true -> plain_str x = true -> plain_str y = true ->
  DsNamesGen.drop_skip (DsNamesGen.drop_pattern sfx x) (nmem y) = negb (str_eqb y x).
Proof. exact gen_drop_skip_exact. Qed.
