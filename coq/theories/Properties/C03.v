(** C03 — Alignment operations equal the same operations on the gapped strings.

    Objects.  A row of the annotatable class is what [Aligned] holds:
    [(amap, adata)], an [IndelMap] (C08 model) and an ungapped sequence, a
    view over a parent string (C01 model); an alignment is an insertion-ordered
    list of named rows (Model/Aligned.v, transcribed from alignment.py).
    [row_gapped] is [Aligned.get_gapped_seq]: the spans of the map applied to
    the displayed sequence; [al_strings] is [to_dict()]; [al_apply] one
    operation, [al_run] a chain (a failing operation leaves the alignment as it
    was).  Specification (Spec/AlignedSpec.v): the alignment IS its list of
    named gapped strings, [spec_apply] / [spec_run] are the plain string
    operations (Python slice semantics of Lib/PySlice.v).  [row_str] is the
    abstraction function (gap mask of the map filled with the residues),
    [RowWF] / [AlnWF] the class invariants.

    [variant] selects pinned / repaired behaviour at the five places where the
    pinned code violates the property; every theorem holds for whichever
    variant the live code follows, the guard [op_ok] says which inputs that
    variant answers as the strings do.  [_refuted]: the faithful model of the
    pinned code violates the unguarded statement (vm_compute witness, replayed
    on the implementation by harness/props/c03.py).

    This file contains nothing but statements closed by [exact]. *)
From CG3 Require Import Lib.PyZ Lib.Val Lib.PySlice Model.View Model.IndelMap Model.IndelMapFixed Model.Aligned.
From CG3 Require Import Model.AlignedArr.
From CG3 Require Import Spec.ViewSpec Spec.IndelMapSpec Spec.AlignedSpec Proofs.IndelMapBounded Proofs.AlignedProofs Proofs.AlignedArrProofs.

(** * rows *)

(** a gapped string is its gap mask filled with its residues ... *)
Theorem string_is_mask_filled_with_residues : forall s : list Z, fill (mask s) (strip s) = s.
Proof. exact fill_mask_strip. Qed.

(** ... and the row the constructor builds from it ([parse_out_gaps]) denotes it *)
Theorem row_of_string_denotes_it : forall (k : kind) (s : list Z),
  exists r, row_of_string k s = Ok r /\ RowWF r /\ skind (adata r) = k /\ row_str r = s.
Proof. exact row_of_string_spec. Qed.

(** [get_gapped_seq] / [str(row)] (spans of the map applied to the displayed
    sequence, as the code computes it) is what the row denotes *)
Theorem get_gapped_seq_spec : forall r : arow, RowWF r -> row_gapped r = row_str r.
Proof. exact row_gapped_spec. Qed.

Theorem row_length : forall r : arow, RowWF r -> zlen (row_str r) = row_len r.
Proof. exact zlen_row_str. Qed.

(** HEADLINE: slicing a row by alignment columns with Python's conventions -
    omitted bounds, negative bounds counted from the end, a start beyond the
    stop, bounds beyond the end clamped; every gap layout, every window incl.
    those starting or ending inside a gap run, every view state of the
    sequence - is the Python slice of the gapped string.
    [slice_guard vr n o]: the bound is omitted, or an integer not below [-n]
    (a bound below [-n] raises IndexError by design) and, for the pinned
    C08-1 variant only, not above [n]. *)
Theorem aligned_slice_spec : forall (vr : variant) (r : arow) (x y : option Z),
  RowWF r -> slice_guard vr (row_len r) x -> slice_guard vr (row_len r) y ->
  exists r', row_getitem_slice vr r x y = Ok r' /\ RowWF r' /\ skind (adata r') = skind (adata r) /\
             row_str r' = py_slice (row_str r) x y 1.
Proof. exact row_slice_any. Qed.

(** the same spelt out for the code as it is after C08-1: ALL integer bounds from [-len] upwards *)
Theorem aligned_slice_all_bounds_spec : forall (vr : variant) (r : arow) (x y : option Z),
  RowWF r -> v_clamp vr = true ->
  (match x with None => True | Some v => - row_len r <= v end) ->
  (match y with None => True | Some v => - row_len r <= v end) ->
  exists r', row_getitem_slice vr r x y = Ok r' /\ RowWF r' /\ skind (adata r') = skind (adata r) /\
             row_str r' = py_slice (row_str r) x y 1.
Proof. exact row_slice_clamped. Qed.

(** beyond the end [get_seq_index] keeps counting (the sequence slice then clamps) *)
Theorem get_seq_index_beyond_len : forall (m : imap) (x : Z), IndelMapSpec.WF m -> len m <= x ->
  get_seq_index m x = Ok (parent_length m + (x - len m)).
Proof. exact get_seq_index_beyond. Qed.

Theorem aligned_index_spec : forall (vr : variant) (r : arow) (i : Z), RowWF r -> 0 <= i < row_len r ->
  exists r', row_getitem_int vr r i = Ok r' /\ RowWF r' /\ skind (adata r') = skind (adata r) /\
             row_str r' = ssub (row_str r) i (i + 1).
Proof. exact row_getitem_int_spec. Qed.

(** with the repair C03-3 a negative index counts from the end *)
Theorem aligned_negative_index_spec : forall (vr : variant) (r : arow) (i : Z),
  RowWF r -> v_negidx vr = true -> - row_len r <= i < 0 ->
  exists r', row_getitem_int vr r i = Ok r' /\ RowWF r' /\ skind (adata r') = skind (adata r) /\
             row_str r' = ssub (row_str r) (i + row_len r) (i + row_len r + 1).
Proof. exact row_getitem_int_neg. Qed.

(** HEADLINE: reverse complement of a row *)
Theorem aligned_rc_spec : forall r : arow, RowWF r -> skind (adata r) <> KOther ->
  exists r', row_rc r = Ok r' /\ RowWF r' /\ skind (adata r') = skind (adata r) /\
             row_str r' = rc_str (skind (adata r)) (row_str r).
Proof. exact row_rc_spec. Qed.

(** concatenation (whenever the code joins the gapped strings: distinct data
    objects, or the shortcut removed) *)
Theorem aligned_add_spec : forall (vr : variant) (same : bool) (r1 r2 : arow),
  RowWF r1 -> RowWF r2 -> (same = false \/ v_noshortcut vr = true) ->
  exists r, row_add vr same r1 r2 = Ok r /\ RowWF r /\ skind (adata r) = skind (adata r1) /\
            row_str r = row_str r1 ++ row_str r2.
Proof. exact row_add_spec. Qed.

(** a row indexed by a feature map of sorted, separated, non-empty spans inside
    the alignment (what [filtered] builds; one span or many via
    [joined_segments]) is the pieces of the string glued together *)
Theorem aligned_getitem_fmap_spec : forall (vr : variant) (r : arow) (locs : list (Z * Z)),
  RowWF r -> locs <> [] -> segs_ok 0 (row_len r) locs ->
  exists r', row_getitem_locs vr r locs = Ok r' /\ RowWF r' /\ skind (adata r') = skind (adata r) /\
             row_str r' = flat_map (fun se => ssub (row_str r) (fst se) (snd se)) locs.
Proof. exact row_getitem_locs_spec. Qed.

(** DNA <-> RNA alters nothing but T/U *)
Theorem aligned_to_moltype_spec : forall (r : arow) (target : kind),
  RowWF r -> skind (adata r) <> KOther -> target <> KOther ->
  exists r', row_to_kind r target = Ok r' /\ RowWF r' /\ skind (adata r') = target /\
             row_str r' = (match skind (adata r), target with
                           | KDna, KRna => t2u_str (row_str r)
                           | KRna, KDna => u2t_str (row_str r)
                           | _, _ => row_str r end).
Proof. exact row_to_kind_spec. Qed.

(** * alignments *)

(** the constructor: any number of rows of equal length under distinct names (names are
    strings; they may be prefixes or substrings of one another) *)
Theorem alignment_init_spec : forall (k : kind) (rows : list (name * list Z)) (n : Z),
  rows <> [] -> Forall (fun nr => zlen (snd nr) = n) rows -> NoDup (map fst rows) ->
  exists a, al_init k rows = Ok a /\ AlnWF a /\ al_kind a = k /\ astr a = rows.
Proof. exact al_init_spec. Qed.

(** [to_dict()] as the code computes it is what the alignment denotes *)
Theorem to_dict_spec : forall a : oalign, AlnWF a -> al_strings a = astr a.
Proof. exact al_strings_spec. Qed.

(** HEADLINE (one operation) over NAMED rows (association lists name -> row,
    lookup by name, the order documented for each operation): [aln + other] pairs the
    rows by name whatever the order of the right operand and fails as the code does
    when a name is missing or the counts differ; take_seqs takes a list of names or
    one name as a plain string (normalised to that one name), with or without
    negate; rename_seqs.  Also: slicing, indexing, reverse complement, the three
    concatenations, take_positions (+-negate), take_seqs (+-negate), filtered /
    no_degenerates / omit_gap_pos (any predicate of the two families, any motif
    length), get_degapped_relative_to, sample with given locations, to_rna /
    to_dna, class conversion, sliding windows: on every alignment satisfying
    the invariant and every argument in the guard the operation succeeds
    exactly when the string operation does, with the same exception class
    otherwise ([Err E_None]: both return None), the result again satisfies the
    invariant (so its rows are equally long) and denotes the strings the plain
    string operation gives *)
Theorem ops_refine_strings : forall (vr : variant) (a : oalign) (o : aop),
  AlnWF a -> op_ok vr (al_kind a) (astr a) o ->
  match spec_apply (al_kind a) (astr a) o with
  | Ok ks => exists a', al_apply vr a o = Ok a' /\ AlnWF a' /\ al_kind a' = fst ks /\ astr a' = snd ks
  | Err e => al_apply vr a o = Err e
  end.
Proof. exact al_apply_spec. Qed.

(** HEADLINE (histories): chains of any length, by [fold_left] *)
Theorem chains_refine_strings : forall (vr : variant) (ops : list aop) (a : oalign),
  AlnWF a -> chain_ok vr (al_kind a, astr a) ops ->
  AlnWF (al_run vr a ops) /\
  (al_kind (al_run vr a ops), astr (al_run vr a ops)) = spec_run ops (al_kind a, astr a).
Proof. exact al_run_spec. Qed.

(** rows of every alignment satisfying the invariant (hence of every result
    above) are equally long, and [len(aln)] is that length *)
Theorem rows_equal_length : forall a : oalign, AlnWF a ->
  Forall (fun nr => zlen (row_gapped (snd nr)) = al_len a /\ row_len (snd nr) = al_len a) a.
Proof. exact al_rows_equal_length. Qed.

(** the hypotheses are satisfiable: a five-step chain inside the guard of the pinned variant *)
Theorem chain_hypotheses_example :
  exists a, al_init KDna witness_rows = Ok a /\ AlnWF a /\
    chain_ok pinned (al_kind a, astr a)
      [OSlice (Some 1) (Some 4); ORc; OAddRows [([98], [65; 45]); ([97], [45; 67])]; OTakePos [2; 0] false;
       OFilter (PGapFrac [45; 63] 0 1) 1; OAddSlices 0 1 0 1; ORename [([97], [98; 50])]; OTakeSeqs (NStr [98]) true].
Proof. exact chain_example. Qed.

(** * the array-backed class (Model/AlignedArr.v, transcribed from ArrayAlignment)

    [good a]: at least one row, rows equally long (what the constructor enforces).
    [arr_ok] excludes only: ragged rows given to [aln + other], the pinned
    [take_positions(negate=True)] on a nucleic alignment (C03-2), a motif
    length < 1, sample locations outside the alignment, to_rna / to_dna of a
    non-nucleic alignment. *)

(** HEADLINE: every method of the array-backed class - numpy slicing with any
    stride, integer indexing, take_positions, take_seqs, filtered /
    no_degenerates / omit_gap_pos (index arithmetic + take), rc, the three
    [+], the boolean-mask get_degapped_relative_to, sample, sliding windows,
    to_rna / to_dna - IS the string operation: equal results, equal exception
    classes, and the result is again rectangular *)
Theorem ops_refine_strings_array : forall (vr : variant) (k : kind) (a : salign) (o : aop),
  good a -> arr_ok vr k a o ->
  d_apply vr k a o = spec_apply k a o /\
  match spec_apply k a o with Ok ka => good (snd ka) | Err _ => True end.
Proof. exact d_apply_spec. Qed.

Theorem chains_refine_strings_array : forall (vr : variant) (ops : list aop) (st : kind * dalign),
  good (snd st) -> arr_chain_ok vr st ops ->
  d_run vr st ops = spec_run ops st /\ good (snd (spec_run ops st)).
Proof. exact d_run_spec. Qed.

(** "the array-backed and the annotatable alignment classes give identical results" *)
Theorem classes_agree : forall (vr : variant) (a : oalign) (o : aop), AlnWF a ->
  op_ok vr (al_kind a) (astr a) o -> arr_ok vr (al_kind a) (astr a) o ->
  match al_apply vr a o, d_apply vr (al_kind a) (astr a) o with
  | Ok a', Ok kd => al_kind a' = fst kd /\ astr a' = snd kd
  | Err e, Err e' => e = e'
  | _, _ => False
  end.
Proof. exact classes_agree_lemma. Qed.

Theorem array_chain_hypotheses_example :
  good witness_rows /\
  arr_chain_ok repaired (KDna, witness_rows)
    [OSliceStep None None (-2); ORc; OTakePos [-1; 0] false; OFilter (PGapFrac [45; 63] 1 2) 1; OAddSelf; OSample [1; 0] 2;
     OAddRows [([98], [65]); ([97], [45])]; ORename [([98], [97; 50])]; OTakeSeqs (NStr [97]) true].
Proof. exact arr_chain_example. Qed.

(** * read-only methods of the annotatable class are the same functions of the strings

    names, num_seqs, len, to_dict, get_gapped_seq, iter_positions / positions,
    get_gap_array, count_gaps_per_pos, is_ragged, degap (default arguments), on
    every alignment satisfying the invariant - hence (chains_refine_strings)
    on the result of every chain they answer as on a new object built from
    the rows.  The remaining read-only methods are compared, not proved. *)
Theorem readonly_refine_strings : forall a : oalign, AlnWF a ->
  al_names a = s_names (astr a) /\ al_num_seqs a = zlen (astr a) /\ al_len a = slen (astr a) /\
  al_strings a = astr a /\ (forall n, al_get_gapped_seq a n = s_get_gapped_seq (astr a) n) /\
  al_positions a = s_positions (astr a) /\ al_gap_array a = s_gap_array (astr a) /\
  al_count_gaps_per_pos a = s_count_gaps_per_pos (astr a) /\ al_is_ragged a = false /\
  al_degap a = s_degap (astr a).
Proof. exact readonly_refine_strings_lemma. Qed.

(** count_gaps_per_seq, variable_positions, get_lengths (default arguments) likewise *)
Theorem readonly_more_refine_strings : forall (a : oalign) (canon : list Z), AlnWF a ->
  al_count_gaps_per_seq a = s_count_gaps_per_seq (astr a) /\
  al_variable_positions a = s_variable_positions (astr a) /\
  al_get_lengths canon a = s_get_lengths canon (astr a).
Proof. exact readonly_more_lemma. Qed.

(** [get_seq(name)] (the ungapped sequence of the named row) is the named gapped string
    without its '-', for rows whose sequence holds no gap character, which is what the
    constructor builds ([row_built_from_string_has_no_gap_in_data]); that this is kept by
    every operation is compared, not proved *)
Theorem get_seq_spec : forall (a : oalign) (n : name), AlnWF a -> Forall (fun nr => NoGapData (snd nr)) a ->
  al_get_seq a n = option_map strip (find_row n (astr a)).
Proof. exact ro_get_seq. Qed.

Theorem row_built_from_string_has_no_gap_in_data : forall (k : kind) (s : list Z) (r : arow),
  row_of_string k s = Ok r -> NoGapData r.
Proof. exact no_gap_of_string. Qed.

(** * no character is altered other than by complementing or the T/U exchange *)

(** every character of every row an operation yields is [x], [comp x], [t2u x]
    or [u2t x] for a character [x] of the rows it was given (or of the rows
    added by [aln + other]) - for the string operations ... *)
Theorem chars_preserved : forall (k : kind) (a : salign) (o : aop) (k' : kind) (a' : salign),
  spec_apply k a o = Ok (k', a') ->
  forall y, In y (chars a') -> exists x, In x (chars a ++ added o) /\ derived k x y.
Proof. exact chars_preserved_lemma. Qed.

(** ... and therefore for what the annotatable class returns *)
Theorem alignment_chars_preserved : forall (vr : variant) (a : oalign) (o : aop) (a' : oalign),
  AlnWF a -> op_ok vr (al_kind a) (astr a) o -> al_apply vr a o = Ok a' ->
  forall y, In y (chars (al_strings a')) ->
  exists x, In x (chars (al_strings a) ++ added o) /\ derived (al_kind a) x y.
Proof. exact model_chars_preserved. Qed.

(** * the pinned code violates the unguarded statements (rows TAC-T / T-CGT) *)

(** full statement: every operation on every alignment, no guard on the variant *)
Definition stmt_ops_refine_strings_unguarded : Prop := forall (a : oalign) (o : aop),
  AlnWF a -> op_ok repaired (al_kind a) (astr a) o ->
  match spec_apply (al_kind a) (astr a) o with
  | Ok ks => exists a', al_apply pinned a o = Ok a' /\ astr a' = snd ks
  | Err e => al_apply pinned a o = Err e
  end.

(** C03-1: [aln + aln] takes the [self.data is other.data] shortcut: ragged rows TAC-T- / T-CGT- *)
Theorem add_self_refuted :
  strings_after pinned OAddSelf = Ok [([97], [84; 65; 67; 45; 84; 45]); ([98], [84; 45; 67; 71; 84; 45])] /\
  spec_apply KDna witness_rows OAddSelf
  = Ok (KDna, [([97], [84; 65; 67; 45; 84; 84; 65; 67; 45; 84]); ([98], [84; 45; 67; 71; 84; 84; 45; 67; 71; 84])]).
Proof. exact add_self_witness. Qed.

(** C03-2: [take_positions([0], negate=True)] raises for a DNA alignment *)
Theorem take_positions_negate_refuted :
  strings_after pinned (OTakePos [0] true) = Err E_Type /\
  spec_apply KDna witness_rows (OTakePos [0] true) = Ok (KDna, [([97], [65; 67; 45; 84]); ([98], [45; 67; 71; 84])]).
Proof. exact take_positions_negate_witness. Qed.

(** C03-3: [aln[-1]] is empty instead of the last column *)
Theorem index_negative_refuted :
  strings_after pinned (OIndex (-1)) = Ok [([97], []); ([98], [])] /\
  spec_apply KDna witness_rows (OIndex (-1)) = Ok (KDna, [([97], [84]); ([98], [84])]).
Proof. exact index_negative_witness. Qed.

(** C08-1 seen through the alignment: [aln[:9]] on 5 columns reports 9 columns *)
Theorem slice_beyond_len_refuted :
  bind (al_init KDna witness_rows) (fun a => bind (al_apply pinned a (OSlice None (Some 9))) (fun a' => Ok (al_len a'))) = Ok 9 /\
  spec_apply KDna witness_rows (OSlice None (Some 9)) = Ok (KDna, witness_rows).
Proof. exact slice_beyond_len_witness. Qed.

(** the repaired variant answers the four witnesses as the strings do *)
Theorem repaired_on_witnesses :
  Forall (fun o => bind (strings_after repaired o) (fun s => Ok (KDna, s)) = spec_apply KDna witness_rows o)
         [OAddSelf; OTakePos [0] true; OIndex (-1); OSlice None (Some 9)].
Proof. exact repaired_witnesses. Qed.
