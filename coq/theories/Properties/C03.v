(** C03 — Alignment operations equal the same operations on the gapped strings. *)
From CG3 Require Import Lib.PyZ Lib.Val Lib.PySlice Model.View Model.IndelMap Model.Aligned Spec.AlignedSpec Proofs.AlignedProofs.

Theorem string_is_mask_filled_with_residues : forall s : list Z, fill (mask s) (strip s) = s.
Proof. exact fill_mask_strip. Qed.
