(** C02 — Log-likelihood equals the first-principles Felsenstein sum-product.

    Model: [Model/Lik.v] (transcribed from evolve/likelihood_tree.py,
    likelihood_tree_numba.py, likelihood_calculation.py).  Specification:
    [Spec/SumProduct.v] (sum over all assignments of a state to every node).
    Every theorem holds for an arbitrary carrier [R] with operations [o]
    satisfying the commutative-semiring laws [sr_laws o] (a premise, never an
    axiom), every rose tree (any number of children per node, unary nodes and
    polytomies included), every number of states [n] and every leaf
    profile / leaf set.  Instances of the laws: [Z_laws] (the instance the
    correspondence check executes), [Qc_laws], [nat_laws].

    Only statements and [exact] here; the proofs are in Proofs/LikProofs.v,
    Proofs/LikSumOne.v, Proofs/LikSets.v, Proofs/LikCompress.v,
    Proofs/LikBind.v. *)
From CG3 Require Import Lib.PyZ Lib.Semiring Lib.LikTree Model.Lik Spec.SumProduct
  Proofs.LikProofs Proofs.LikSumOne Proofs.LikSets Proofs.LikCompress Proofs.LikBind.
Local Open Scope nat_scope.

(** the pruning recursion the code performs (partial likelihood vectors
    combined at internal nodes through the per-edge matrices, root dotted with
    the motif probabilities) equals the brute-force sum over all assignments of
    states to the internal nodes, leaves weighted by their profile *)
Theorem pruning_eq_bruteforce :
  forall (R : Type) (o : sr_ops R), sr_laws o ->
  forall (n : nat) (t : tree (list R) (list (list R))) (pi : list R),
    wf n t -> length pi = n ->
    col_lik o n t pi = brute_lik o n (fview o t) (vfun o pi).
Proof. exact pruning_eq_bruteforce_lemma. Qed.

(** the same in the property's wording: leaves carry the SET of compatible
    states (0/1 rows of [get_matched_array]); the likelihood is the sum, over
    the assignments of states to all nodes that give every leaf a state of its
    set, of pi(root) x product over edges of P_e[parent][child] *)
Theorem pruning_eq_sum_product :
  forall (R : Type) (o : sr_ops R), sr_laws o ->
  forall (n : nat) (bt : tree (list bool) (list (list R))) (pi : list R),
    tree_all (fun bs => length bs = n) (wfmat n) bt -> length pi = n ->
    col_lik o n (as_model R o bt) pi = sum_product o n (as_spec R o bt) (vfun o pi).
Proof. exact LikSets.pruning_eq_sum_product. Qed.

(** brute-force sum with 0/1 leaf weights = sum restricted to compatible assignments *)
Theorem bruteforce_eq_sum_product :
  forall (R : Type) (o : sr_ops R), sr_laws o ->
  forall (n : nat) (t : tree (nat -> bool) (nat -> nat -> R)) (pi : nat -> R),
    brute_lik o n (tmap (indicator o) (fun e => e) t) pi = sum_product o n t pi.
Proof. exact brute_lik_sum_product. Qed.

(** column-pattern compression with counts: the count-weighted log-sum over
    the unique columns (plus the extra count-0 gap column) is the plain sum over
    all alignment columns; [lg] is any function into a commutative monoid *)
Theorem compress_sum :
  forall (R Lg : Type) (lm : cm_ops Lg), cm_laws lm ->
  forall (lg : R -> Lg) (lik : column -> R) (gapcol : column) (cols : list column),
    total_log_lik lm lg lik gapcol cols = big_op lm (fun c => lg (lik c)) cols.
Proof. exact LikCompress.compress_sum. Qed.

(** [likelihoods[self.index]] gives every position the value of its own column *)
Theorem index_recovers_columns :
  forall (A : Type) (eqb : A -> A -> bool), (forall a b, eqb a b = true <-> a = b) ->
  forall values : list A,
    let '(u, _, ix) := indexed eqb values in map (fun i => nth_error u i) ix = map Some values.
Proof. exact indexed_index. Qed.

(** bin / site-class mixture is the bprob-weighted sum of the per-bin likelihoods *)
Theorem mixture_linear :
  forall (R : Type) (o : sr_ops R), sr_laws o ->
  forall bprobs lhs : list R,
    mixture o bprobs lhs = big_sum o (fun bl => sr_mul o (snd bl) (fst bl)) (combine bprobs lhs).
Proof. exact LikCompress.mixture_linear. Qed.

(** per-column likelihoods summed over all possible columns equal one, for
    row-stochastic edge matrices and a normalised root distribution
    (specification level: functional matrices, brute-force likelihood) *)
Theorem columns_sum_to_one :
  forall (R : Type) (o : sr_ops R), sr_laws o ->
  forall (n : nat) (X : Type) (t : tree X (nat -> nat -> R)) (pi : nat -> R),
    (forall e, In e (edges t) -> forall a, a < n -> big_sum o (fun j => e a j) (seq 0 n) = sr_one o) ->
    big_sum o pi (seq 0 n) = sr_one o ->
    big_sum o (fun lab => brute_lik o n (tmap (point o) (fun e => e) lab) pi) (labelings n t) = sr_one o.
Proof. exact LikSumOne.columns_sum_to_one. Qed.

(** the same for the model's own pruning on list-based matrices *)
Theorem model_columns_sum_to_one :
  forall (R : Type) (o : sr_ops R), sr_laws o ->
  forall (n : nat) (t : tree (list R) (list (list R))) (pi : list R),
    wf n t -> length pi = n ->
    (forall P, In P (edges t) -> Forall (fun row => big_sum o (fun x => x) row = sr_one o) P) ->
    big_sum o (fun x => x) pi = sr_one o ->
    big_sum o (fun lab => col_lik o n (tmap (fun s => indicator_row o (map (Nat.eqb s) (seq 0 n))) (fun e => e) lab) pi)
      (labelings n t) = sr_one o.
Proof. exact LikSumOne.model_columns_sum_to_one. Qed.

(** the function the correspondence check executes ([lik_column]: one named
    alignment column + per-edge matrices bound to the named tree, leaf
    profiles from the ambiguity table, pruning, root dot product) equals the
    first-principles sum-product with the leaf sets of that column *)
Theorem lik_column_eq_sum_product :
  forall (R : Type) (o : sr_ops R), sr_laws o ->
  forall (amb : amb_table) (alphabet : list motif) (psub : Z -> list (list R)) (pi : list R) (t : tree Z Z) (col : column),
    resolvable amb alphabet t col ->
    (forall e, In e (edges t) -> wfmat (length alphabet) (psub e)) -> length pi = length alphabet ->
    lik_column o (length alphabet) (profile o amb alphabet) psub pi t col
    = sum_product o (length alphabet) (as_spec R o (tmap (leaf_set amb alphabet col) psub t)) (vfun o pi).
Proof. exact lik_column_eq_sum_product_lemma. Qed.

(** the reported log-likelihood (compressed, count-weighted) is the sum over
    all alignment columns of lg of the first-principles column likelihood *)
Theorem total_log_lik_eq_sum :
  forall (R : Type) (o : sr_ops R), sr_laws o ->
  forall (amb : amb_table) (alphabet : list motif) (Lg : Type) (lm : cm_ops Lg), cm_laws lm ->
  forall (lg : R -> Lg) (psub : Z -> list (list R)) (pi : list R) (t : tree Z Z) (gapcol : column) (cols : list column),
    (forall col, In col cols -> resolvable amb alphabet t col) ->
    (forall e, In e (edges t) -> wfmat (length alphabet) (psub e)) -> length pi = length alphabet ->
    total_log_lik lm lg (lik_column o (length alphabet) (profile o amb alphabet) psub pi t) gapcol cols
    = big_op lm (fun col => lg (sum_product o (length alphabet) (as_spec R o (tmap (leaf_set amb alphabet col) psub t)) (vfun o pi))) cols.
Proof. exact total_log_lik_eq_sum_lemma. Qed.
