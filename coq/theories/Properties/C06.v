(** C06 — Sequence file formats round-trip and all parsers of a format agree.
    Only theorem statements; every proof is [exact <lemma>].

    Vocabulary (Model/Formats.v, Spec/FormatsSpec.v):
      [fasta_write recs]      seqs_to_fasta, [recs : list (name * lines)], the lines being ANY cutting of the
                              sequence (textwrap abstracted); [fasta_write_w w] the same with fixed width w
      [lines_faster/strict]   MinimalFastaParser(strict=False/True) on the text of a file
      [bytes_parser]          iter_fasta_records(bytes) of the pinned tree; [bytes_parser_fixed] after fix C06-1
      [ok_frec], [ok_rec]     boolean "representable" predicates: name without line-boundary characters and without
                              white space at either end (inner blanks, '>', '#', '%', '|' ... allowed); sequence
                              non-empty, characters that are not white space, not '>' '#' '%', and upper-case
      [records_of recs]       the plain records (name, concatenated lines)
    Non-vacuity: Examples [ok_frec_ex], [ok_rec_ex], [only_nl_ex] in Proofs/FormatsProofs.v. *)
From CG3 Require Import Lib.PyZ Lib.Chars Model.Formats Spec.FormatsSpec Proofs.FormatsProofs.

(** FASTA, non-strict line parser: for EVERY list of representable records and EVERY way of
    cutting the sequences into non-empty lines (any block width, any textwrap behaviour) *)
Theorem fasta_roundtrip_lines : forall recs,
  (forall r, In r recs -> ok_frec r = true) ->
  lines_faster (fasta_write recs) = records_of recs.
Proof. exact fasta_roundtrip_faster. Qed.

(** FASTA, strict line parser *)
Theorem fasta_roundtrip_lines_strict : forall recs,
  recs <> [] -> (forall r, In r recs -> ok_frec r = true) ->
  lines_strict (fasta_write recs) = POk (records_of recs).
Proof. exact fasta_roundtrip_strict. Qed.

(** FASTA, bytes parser of the pinned tree: needs the extra guard "no '>' in a name" *)
Theorem fasta_roundtrip_bytes : forall recs,
  (forall r, In r recs -> ok_frec r = true /\ no_gt (fst r) = true) ->
  bytes_parser (fasta_write recs) = records_of recs.
Proof. exact fasta_roundtrip_bytes_lemma. Qed.

(** the two FASTA parsers agree on every text the writer produces from such records *)
Theorem fasta_parsers_agree : forall recs,
  (forall r, In r recs -> ok_frec r = true /\ no_gt (fst r) = true) ->
  bytes_parser (fasta_write recs) = lines_faster (fasta_write recs).
Proof. exact fasta_parsers_agree_lemma. Qed.

(** without that guard the bytes parser does NOT round-trip: name "a>b" (finding C06-1) *)
Theorem fasta_roundtrip_bytes_unguarded_refuted :
  exists recs, (forall r, In r recs -> ok_frec r = true) /\ bytes_parser (fasta_write recs) <> records_of recs.
Proof. exact bytes_roundtrip_unguarded_refuted. Qed.

(** ... and the two FASTA parsers disagree on that well-formed text *)
Theorem fasta_parsers_agree_unguarded_refuted :
  exists recs, (forall r, In r recs -> ok_frec r = true) /\
               bytes_parser (fasta_write recs) <> lines_faster (fasta_write recs).
Proof. exact parsers_agree_unguarded_refuted. Qed.

(** after the proposed fix C06-1 (records start at a '>' that begins a line) both hold unguarded *)
Theorem fasta_roundtrip_bytes_fixed : forall recs,
  (forall r, In r recs -> ok_frec r = true) ->
  bytes_parser_fixed (fasta_write recs) = records_of recs.
Proof. exact fasta_roundtrip_bytes_fixed_lemma. Qed.

Theorem fasta_parsers_agree_fixed : forall recs,
  (forall r, In r recs -> ok_frec r = true) ->
  bytes_parser_fixed (fasta_write recs) = lines_faster (fasta_write recs).
Proof. exact fasta_parsers_agree_fixed_lemma. Qed.

(** FASTA with a block width: every width >= 1, every list of representable (name, sequence) *)
Theorem fasta_blockwidth_roundtrip_lines : forall w recs, (1 <= w)%nat ->
  (forall r, In r recs -> ok_rec r = true) -> lines_faster (fasta_write_w w recs) = recs.
Proof. exact fasta_w_roundtrip_faster. Qed.

Theorem fasta_blockwidth_roundtrip_strict : forall w recs, (1 <= w)%nat -> recs <> [] ->
  (forall r, In r recs -> ok_rec r = true) -> lines_strict (fasta_write_w w recs) = POk recs.
Proof. exact fasta_w_roundtrip_strict. Qed.

Theorem fasta_blockwidth_roundtrip_bytes : forall w recs, (1 <= w)%nat ->
  (forall r, In r recs -> ok_rec r = true /\ no_gt (fst r) = true) -> bytes_parser (fasta_write_w w recs) = recs.
Proof. exact fasta_w_roundtrip_bytes. Qed.

Theorem fasta_blockwidth_roundtrip_bytes_fixed : forall w recs, (1 <= w)%nat ->
  (forall r, In r recs -> ok_rec r = true) -> bytes_parser_fixed (fasta_write_w w recs) = recs.
Proof. exact fasta_w_roundtrip_bytes_fixed. Qed.

(** GDE: strict (the loader's) and non-strict parser, every block width *)
Theorem gde_roundtrip : forall w recs, (1 <= w)%nat -> recs <> [] ->
  (forall r, In r recs -> ok_rec r = true) ->
  strict_parser gde_lc (py_splitlines (gde_write w recs)) = POk recs.
Proof. exact gde_roundtrip_strict. Qed.

Theorem gde_roundtrip_nonstrict : forall w recs, (1 <= w)%nat ->
  (forall r, In r recs -> ok_rec r = true) ->
  faster_parser gde_lc (py_splitlines (gde_write w recs)) = recs.
Proof. exact gde_roundtrip_faster. Qed.

(** chunked line streaming: EVERY way of cutting a text into chunks (empty chunks included) yields
    exactly [text.splitlines()], provided '\n' is the only line-boundary character of the text *)
Theorem splitlines_chunk_invariant : forall chunks,
  only_nl (concat chunks) = true -> iter_splitlines chunks = py_splitlines (concat chunks).
Proof. exact iter_splitlines_spec. Qed.

(** in particular every chunk size *)
Theorem splitlines_chunk_size_invariant : forall n s,
  (1 <= n)%nat -> only_nl s = true -> iter_splitlines (chunks_of n s) = py_splitlines s.
Proof. exact chunk_size_invariance. Qed.

(** the guard is necessary (not a finding: form feed is not well-formed input): "a\f" + "b" *)
Theorem splitlines_chunk_guard_needed :
  exists chunks, iter_splitlines chunks <> py_splitlines (concat chunks).
Proof. exact chunk_invariance_unguarded_refuted. Qed.

(** PAML: every block width, every alignment (non-empty names, sequences of equal length >= 1) *)
Theorem paml_roundtrip : forall w recs, (1 <= w)%nat -> recs <> [] ->
  (forall r, In r recs -> ok_arec (align_length recs) r = true) ->
  paml_parser (py_splitlines (paml_write w recs)) = POk recs.
Proof. exact paml_roundtrip_lemma. Qed.

(** PHYLIP (sequential, as the writer emits it): every block width, every alignment whose names and
    9-character truncated names are representable; names come back truncated to 9 characters
    ([phylip_expected]), order and sequences unchanged *)
Theorem phylip_roundtrip : forall w recs, (1 <= w)%nat -> recs <> [] ->
  (forall r, In r recs -> ok_prec (align_length recs) r = true) ->
  phylip_parser (py_splitlines (phylip_write w recs)) = Some (POk (phylip_expected recs)).
Proof. exact phylip_roundtrip_lemma. Qed.

(** strict = non-strict on well-formed input *)
Theorem fasta_strict_eq_nonstrict : forall recs,
  recs <> [] -> (forall r, In r recs -> ok_frec r = true) ->
  lines_strict (fasta_write recs) = POk (lines_faster (fasta_write recs)).
Proof. exact fasta_strict_eq_faster. Qed.

Theorem gde_strict_eq_nonstrict : forall w recs, (1 <= w)%nat -> recs <> [] ->
  (forall r, In r recs -> ok_rec r = true) ->
  strict_parser gde_lc (py_splitlines (gde_write w recs)) = POk (faster_parser gde_lc (py_splitlines (gde_write w recs))).
Proof. exact gde_strict_eq_faster. Qed.

(** what loading a path does for GDE / PAML / PHYLIP (LineBasedParser: the parser applied to iter_splitlines):
    for ANY cutting of the written file into chunks, hence for every chunk size, the records come back *)
Theorem gde_stream_roundtrip_any_chunking : forall w recs chunks, (1 <= w)%nat -> recs <> [] ->
  (forall r, In r recs -> ok_rec r = true) ->
  concat chunks = gde_write w recs ->
  strict_parser gde_lc (iter_splitlines chunks) = POk recs.
Proof. exact gde_stream_roundtrip. Qed.

Theorem paml_stream_roundtrip_any_chunking : forall w recs chunks, (1 <= w)%nat -> recs <> [] ->
  (forall r, In r recs -> ok_arec (align_length recs) r = true) ->
  concat chunks = paml_write w recs ->
  paml_parser (iter_splitlines chunks) = POk recs.
Proof. exact paml_stream_roundtrip. Qed.

Theorem phylip_stream_roundtrip_any_chunking : forall w recs chunks, (1 <= w)%nat -> recs <> [] ->
  (forall r, In r recs -> ok_prec (align_length recs) r = true) ->
  concat chunks = phylip_write w recs ->
  phylip_parser (iter_splitlines chunks) = Some (POk (phylip_expected recs)).
Proof. exact phylip_stream_roundtrip. Qed.

Theorem gde_roundtrip_every_chunk_size : forall n w recs, (1 <= n)%nat -> (1 <= w)%nat -> recs <> [] ->
  (forall r, In r recs -> ok_rec r = true) ->
  strict_parser gde_lc (iter_splitlines (chunks_of n (gde_write w recs))) = POk recs.
Proof. exact gde_chunksize_roundtrip. Qed.

Theorem paml_roundtrip_every_chunk_size : forall n w recs, (1 <= n)%nat -> (1 <= w)%nat -> recs <> [] ->
  (forall r, In r recs -> ok_arec (align_length recs) r = true) ->
  paml_parser (iter_splitlines (chunks_of n (paml_write w recs))) = POk recs.
Proof. exact paml_chunksize_roundtrip. Qed.

Theorem phylip_roundtrip_every_chunk_size : forall n w recs, (1 <= n)%nat -> (1 <= w)%nat -> recs <> [] ->
  (forall r, In r recs -> ok_prec (align_length recs) r = true) ->
  phylip_parser (iter_splitlines (chunks_of n (phylip_write w recs))) = Some (POk (phylip_expected recs)).
Proof. exact phylip_chunksize_roundtrip. Qed.

(** ------------------------------------------------------------------------------------------------
    Well-formed FASTA text IN GENERAL (not only what the writer produces): any records whose label is made of
    plain characters (ASCII, blanks at either end and '>' inside allowed) followed by lines of plain upper-case
    characters — blanks/tabs anywhere, empty and blank lines allowed, at least one non-empty line, no line
    starting with '>' or '#'.  Every parser returns the stripped label verbatim and the residues without
    white space ([gen_records]); hence all parsers agree.  Example [wf_frec_ex]. *)
Theorem fasta_wellformed_nonstrict : forall recs,
  (forall r, In r recs -> wf_frec r = true) -> lines_faster (fasta_write recs) = gen_records recs.
Proof. exact lines_faster_gen. Qed.

Theorem fasta_wellformed_strict : forall recs,
  recs <> [] -> (forall r, In r recs -> wf_frec r = true) ->
  lines_strict (fasta_write recs) = POk (gen_records recs).
Proof. exact lines_strict_gen. Qed.

(** pinned bytes parser: additionally no '>' after the first column anywhere *)
Theorem fasta_wellformed_bytes : forall recs,
  (forall r, In r recs -> wf_frec r = true /\ nogt_rec r = true) ->
  bytes_parser (fasta_write recs) = gen_records recs.
Proof. exact bytes_pinned_gen. Qed.

(** bytes parser after fix C06-1: no extra guard *)
Theorem fasta_wellformed_bytes_fixed : forall recs,
  (forall r, In r recs -> wf_frec r = true) -> bytes_parser_fixed (fasta_write recs) = gen_records recs.
Proof. exact bytes_fixed_gen. Qed.

(** ------------------------------------------------------------------------------------------------
    Inputs the writers accept silently but no parser gives back (each is a finding of the check) *)
Theorem name_outer_blank_refuted :
  lines_faster (fasta_write_w 60 [blank_rec]) <> [blank_rec]
  /\ bytes_parser (fasta_write_w 60 [blank_rec]) <> [blank_rec]
  /\ bytes_parser_fixed (fasta_write_w 60 [blank_rec]) <> [blank_rec]
  /\ strict_parser gde_lc (py_splitlines (gde_write 60 [blank_rec])) <> POk [blank_rec]
  /\ paml_parser (py_splitlines (paml_write 60 [blank_rec])) <> POk [blank_rec]
  /\ phylip_parser (py_splitlines (phylip_write 60 [blank_rec])) <> Some (POk (phylip_expected [blank_rec])).
Proof. exact name_outer_blank_refuted_lemma. Qed.

Theorem phylip_unequal_lengths_refuted :
  phylip_parser (py_splitlines (phylip_write 60 unequal_recs)) <> Some (POk (phylip_expected unequal_recs)).
Proof. exact phylip_unequal_lengths_refuted_lemma. Qed.

Theorem paml_unequal_lengths_refuted :
  exists p, paml_parser (py_splitlines (paml_write 1 unequal_recs)) = POk p /\ p <> unequal_recs.
Proof. exact paml_unequal_lengths_refuted_lemma. Qed.

(** ------------------------------------------------------------------------------------------------
    PHYLIP, the INTERLEAVED branch of MinimalPhylipParser (header with a third field).  The interleaved
    rendering of an alignment ([phylip_interleaved_write]: header "n  m I", first block padded name + first slice
    of every sequence, then after an empty line one indented block per further slice) is written in the model as
    the format defines it — cogent3's writer only emits the sequential layout.  For every block width and every
    alignment of the guard of [phylip_roundtrip] it parses to the same records as the sequential rendering. *)
Theorem phylip_interleaved_roundtrip : forall w recs, (1 <= w)%nat -> recs <> [] ->
  (forall r, In r recs -> ok_prec (align_length recs) r = true) ->
  phylip_parser (py_splitlines (phylip_interleaved_write w recs)) = Some (POk (phylip_expected recs)).
Proof. exact phylip_interleaved_lemma. Qed.

Theorem phylip_interleaved_eq_sequential : forall w recs, (1 <= w)%nat -> recs <> [] ->
  (forall r, In r recs -> ok_prec (align_length recs) r = true) ->
  phylip_parser (py_splitlines (phylip_interleaved_write w recs)) = phylip_parser (py_splitlines (phylip_write w recs)).
Proof. exact phylip_interleaved_eq_sequential_lemma. Qed.

(** ------------------------------------------------------------------------------------------------
    GenBank flat files.  Grammar ([ok_gbx]): per record a LOCUS line (name = one token of plain characters, any length
    field), any number of one-line fields whose label has no dedicated handler, "ORIGIN", at least one line of the
    sequence block (starts with a blank; blanks, digits and lower-case residues in ANY numbering / grouping; ends with a
    residue), "//".  The standard layout (9-column numbering, 6 groups of 10) is an instance ([gbx_standard_ex]).
    Every reader returns (LOCUS name, residues of the ORIGIN block) for every record; the bytes reader upper-cases. *)
Theorem genbank_lines_reader : forall recs, (forall r, In r recs -> ok_gbx r = true) ->
  gb_lines_parser (py_splitlines (gbx_write recs)) = GRecs (gbx_expected recs).
Proof. exact gb_lines_roundtrip. Qed.

(** the line reader fed by iter_splitlines: any cutting of the file into chunks *)
Theorem genbank_lines_reader_any_chunking : forall recs chunks, (forall r, In r recs -> ok_gbx r = true) ->
  concat chunks = gbx_write recs ->
  gb_lines_parser (iter_splitlines chunks) = GRecs (gbx_expected recs).
Proof. exact gb_lines_stream. Qed.

(** minimal_parser / rich_parser (iter_genbank_records) after fix C06-7: any number of records *)
Theorem genbank_bytes_reader_fixed : forall recs, (forall r, In r recs -> ok_gbx r = true) ->
  gb_bytes_parser true (gbx_write recs) = GRecs (gbx_expected_upper recs).
Proof. exact gb_bytes_fixed_roundtrip. Qed.

(** the two readers agree (residues modulo the documented upper-casing of the bytes reader) *)
Theorem genbank_readers_agree_fixed : forall recs, (forall r, In r recs -> ok_gbx r = true) ->
  exists l, gb_lines_parser (py_splitlines (gbx_write recs)) = GRecs l
            /\ gb_bytes_parser true (gbx_write recs) = GRecs (map upper_rec l).
Proof. exact gb_readers_agree_fixed. Qed.

(** source before fix C06-7: a single record is read ... *)
Theorem genbank_bytes_reader_single_record : forall r, ok_gbx r = true ->
  gb_bytes_parser false (gbx_write [r]) = GRecs (gbx_expected_upper [r]).
Proof. exact gb_bytes_pinned_single. Qed.

(** ... but a file with two records raises IndexError while the line reader reads it
    (finding genbank-parsers:bytes-readers:multi-record) *)
Theorem genbank_bytes_reader_multi_record_refuted :
  ok_gbx gbx_w1 = true /\ gb_bytes_parser false (gbx_write [gbx_w1; gbx_w1]) = GErr 1
  /\ gb_lines_parser (py_splitlines (gbx_write [gbx_w1; gbx_w1])) = GRecs (gbx_expected [gbx_w1; gbx_w1]).
Proof. exact gb_bytes_pinned_multi_refuted. Qed.

(** ------------------------------------------------------------------------------------------------
    File name -> (format, compression) ([get_format_suffixes], over pathlib's name / suffix / suffixes).
    For EVERY stem made of one or more components separated by periods ([join_dot st], components non-empty, without
    '.' and '/'): uncompressed names give the last suffix as format; names ending in gz / bz2 / zip give the
    second-to-last suffix as format and the last as compression; suffixes are reported lower-case.
    Example [gfs_ex]: "ENSG00000012048.23.fasta.gz" -> (fasta, gz). *)
Theorem format_suffixes_uncompressed : forall st f, st <> [] -> ok_comps (st ++ [f]) ->
  mem_str (ascii_lower f) compression_suffixes = false ->
  get_format_suffixes (join_dot (st ++ [f])) = (Some (ascii_lower f), None).
Proof. exact gfs_plain. Qed.

Theorem format_suffixes_compressed : forall st f cmp, st <> [] -> ok_comps (st ++ [f; cmp]) ->
  mem_str (ascii_lower cmp) compression_suffixes = true ->
  get_format_suffixes (join_dot (st ++ [f; cmp])) = (Some (ascii_lower f), Some (ascii_lower cmp)).
Proof. exact gfs_compressed. Qed.

Theorem format_suffixes_only_compression : forall c0 cmp, ok_comps [c0; cmp] ->
  mem_str (ascii_lower cmp) compression_suffixes = true ->
  get_format_suffixes (join_dot [c0; cmp]) = (None, Some (ascii_lower cmp)).
Proof. exact gfs_only_compression. Qed.
