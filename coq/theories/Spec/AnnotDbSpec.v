(** C17 — specification: a query is a linear scan of the record list with the
    interval meaning of the coordinate window. *)
From CG3 Require Import Lib.PyZ Model.AnnotDb.

(** half-open intervals [fs,fe) and [qs,qe) share a position *)
Definition overlap (fs fe qs qe : Z) : bool := (fs <? qe) && (qs <? fe).
(** [fs,fe) lies inside [qs,qe) *)
Definition within (fs fe qs qe : Z) : bool := (qs <=? fs) && (fe <=? qe).
(** position p is inside [fs,fe) *)
Definition covers (fs fe p : Z) : bool := (fs <=? p) && (p <? fe).

Definition spec_window (q : query) (r : row) : bool :=
  match q_start q, q_stop q with
  | Some qs, Some qe =>
      if q_partial q then overlap (r_start r) (r_stop r) qs qe
      else within (r_start r) (r_stop r) qs qe
  | Some qs, None => covers (r_start r) (r_stop r) qs
  | None, Some qe => covers (r_start r) (r_stop r) qe
  | None, None => true
  end.

Definition spec_match (q : query) (r : row) : bool :=
  val_cond (q_biotype q) (r_biotype r)
  && val_cond (q_seqid q) (r_seqid r)
  && val_cond (q_name q) (r_name r)
  && str_cond (q_strand q) (r_strand r)
  && attrs_cond_v (q_attrs_lit q) (q_attrs q) (r_attrs r)
  && (if r_table r =? 1 then bool_cond (q_on_aln q) (r_on_aln r) else true)
  && spec_window q r.

(** the record list a scan sees: table by table, insertion order within *)
Definition records_in_tables (tables : list Z) (db : list row) : list row :=
  flat_map (fun t => rows_of t db) tables.

Definition scan (tables : list Z) (db : list row) (q : query) : list row :=
  filter (spec_match q) (records_in_tables (tables_for q tables) db).

(** well-formedness of stored rows and of a query window *)
Definition row_wf (r : row) : Prop := r_start r < r_stop r.
Definition query_wf (q : query) : Prop :=
  match q_start q, q_stop q with Some qs, Some qe => qs < qe | _, _ => True end.
