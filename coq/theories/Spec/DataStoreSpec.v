(** C13 — the specification: a data store is two dictionaries.

    Written from the property text, independently of the store models:
    [completed] and [not_completed] map a record name to its content; the
    checksum of a record is the checksum of that content (digests are an
    injective tag, so "md5 of x" is represented by the content itself).

      write x d                 completed[x] := d ; not_completed.pop(x)
      write_not_completed x d   not_completed[x] := d
      drop_not_completed x      not_completed.pop(x)
      drop_not_completed ()     not_completed.clear()
      write_log                 no effect on the two dictionaries
      close + re-open in m      no effect on the two dictionaries, the mode becomes m
      append mode               a write of a name that is present changes nothing
      read-only mode            nothing changes

    Three points the property text leaves open are parameters ([policy]):
    what a not-completed write does to a completed record of the same name
    (leave it / retire it); whether, in append mode, a completed write may
    complete a record that so far is only not-completed; and whether, in append
    mode, the not-completed record of a name that is only not-completed may be
    replaced by a new not-completed record (re-running a failed input: the
    directory store's [apply_to] relies on it).

    Only the type of store modes is shared with the models. *)
From Coq Require Import ZArith List Bool.
From CG3 Require Import Lib.Chars Model.DataStore.
Import ListNotations.

Definition table := str -> option str.

Definition t_empty : table := fun _ => None.

Definition t_set (t : table) (k : str) (v : option str) : table :=
  fun x => if str_eqb x k then v else t x.

Definition present (o : option str) : bool := match o with Some _ => true | None => false end.

Record dict := mkDict {
  dm : mode;
  dc : table;        (* completed *)
  dn : table }.      (* not completed *)

Definition d_new (m : mode) : dict := mkDict m t_empty t_empty.

Record policy := mkPolicy {
  nc_retires_completed : bool;
  append_completes_nc : bool;
  append_rewrites_nc : bool }.

(** operations on record NAMES *)
Inductive aop :=
| AWrite (k d : str)
| AWriteNC (k d : str)
| ALog
| ADrop (k : str)
| ADropAll
| AReopen (m : mode).

Definition sp_step (p : policy) (s : dict) (o : aop) : dict :=
  match o with
  | AReopen m => mkDict m (dc s) (dn s)
  | ALog => s
  | AWrite k d =>
      match dm s with
      | MR => s
      | MA => if present (dc s k) || (present (dn s k) && negb (append_completes_nc p)) then s
              else mkDict MA (t_set (dc s) k (Some d)) (t_set (dn s) k None)
      | MW => mkDict MW (t_set (dc s) k (Some d)) (t_set (dn s) k None)
      end
  | AWriteNC k d =>
      match dm s with
      | MR => s
      | MA => if present (dc s k) || (present (dn s k) && negb (append_rewrites_nc p)) then s
              else mkDict MA (dc s) (t_set (dn s) k (Some d))
      | MW => mkDict MW (if nc_retires_completed p then t_set (dc s) k None else dc s)
                     (t_set (dn s) k (Some d))
      end
  | ADrop k =>
      match dm s with
      | MR => s
      | m => mkDict m (dc s) (t_set (dn s) k None)
      end
  | ADropAll =>
      match dm s with
      | MR => s
      | m => mkDict m (dc s) t_empty
      end
  end.

Definition sp_run (p : policy) (s : dict) (ops : list aop) : dict := fold_left (sp_step p) ops s.

(** the record name an identifier denotes.  Directory store: identifiers are
    used with and without the format suffix of the store. *)
Definition dir_lid (sfx raw : str) : str :=
  let n := (length raw - S (length sfx))%nat in
  if endswith raw (ch_dot :: sfx) && negb (Nat.eqb n 0) then firstn n raw else raw.

(** sqlite store: write / write_not_completed accept the name prefixed by the table name *)
Definition s_results_slash : str := [114;101;115;117;108;116;115;47].   (* "results/" *)

Definition sql_lid (raw : str) : str :=
  if startswith raw s_results_slash then skipn (length s_results_slash) raw else raw.

Definition dir_aop (sfx : str) (o : op) : aop :=
  match o with
  | OWrite id d => AWrite (dir_lid sfx id) d
  | OWriteNC id d => AWriteNC (dir_lid sfx id) d
  | OWriteLog _ _ => ALog
  | ODrop id => ADrop (dir_lid sfx id)
  | ODropAll => ADropAll
  | OReopen m => AReopen m
  end.

Definition sql_aop (o : op) : aop :=
  match o with
  | OWrite id d => AWrite (sql_lid id) d
  | OWriteNC id d => AWriteNC (sql_lid id) d
  | OWriteLog _ _ => ALog
  | ODrop id => ADrop id
  | ODropAll => ADropAll
  | OReopen m => AReopen m
  end.

(** the policies of the two stores *)
Definition dir_policy : policy := mkPolicy false true true.
Definition sql_policy : policy := mkPolicy true false false.

(** a history in which no not-completed record is written (in overwrite mode)
    under a name that is currently completed *)
Fixpoint no_nc_over_completed (p : policy) (s : dict) (ops : list aop) : bool :=
  match ops with
  | [] => true
  | o :: rest =>
      match o with
      | AWriteNC k _ => negb (mode_eqb (dm s) MW && present (dc s k))
      | _ => true
      end && no_nc_over_completed p (sp_step p s o) rest
  end.

(** -------------------------------------------------------------------------
    The three sentences of the property about the dictionary itself hold of
    the specification by construction; they are stated here so that the
    refinement theorems transfer them to the stores. *)

Definition names_of (o : aop) : list str :=
  match o with
  | AWrite k _ | AWriteNC k _ | ADrop k => [k]
  | _ => []
  end.

Lemma t_set_other t k v x : x <> k -> t_set t k v x = t x.
Proof.
  intros H. unfold t_set. destruct (str_eqb_spec x k); [contradiction|reflexivity].
Qed.

Lemma t_set_same t k v : t_set t k v k = v.
Proof. unfold t_set. now rewrite str_eqb_refl. Qed.

(** an operation on one name never changes the completed record of another
    name, and changes the not-completed record of another name only if it is
    the drop-all operation *)
Ltac t_other := repeat (rewrite t_set_other by assumption).

Lemma sp_others_untouched p s o x :
  ~ In x (names_of o) ->
  dc (sp_step p s o) x = dc s x /\ (o <> ADropAll -> dn (sp_step p s o) x = dn s x).
Proof.
  intros Hx. destruct o as [k d|k d| |k| |m]; cbn [names_of In] in Hx; cbn [sp_step].
  - assert (x <> k) by (intro; subst; intuition congruence).
    destruct (dm s); [intuition congruence| | ].
    + cbn [dc dn]. t_other. intuition congruence.
    + destruct (_ || _); cbn [dc dn]; t_other; intuition congruence.
  - assert (x <> k) by (intro; subst; intuition congruence).
    destruct (dm s); [intuition congruence| | ].
    + destruct (nc_retires_completed p); cbn [dc dn]; t_other; intuition congruence.
    + destruct (_ || _); cbn [dc dn]; t_other; intuition congruence.
  - intuition congruence.
  - assert (x <> k) by (intro; subst; intuition congruence).
    destruct (dm s); cbn [dc dn]; t_other; intuition congruence.
  - destruct (dm s); cbn [dc dn]; split; try reflexivity; intros; congruence.
  - cbn [dc dn]. intuition congruence.
Qed.

(** append mode never overwrites: a record that is present keeps its content *)
Lemma sp_append_never_overwrites p s o x v :
  dm s = MA -> (forall m, o <> AReopen m) ->
  (dc s x = Some v -> dc (sp_step p s o) x = Some v) /\
  (dn s x = Some v -> dn (sp_step p s o) x = Some v \/ (exists d, o = AWrite x d) \/ o = ADrop x \/ o = ADropAll
                      \/ (append_rewrites_nc p = true /\ exists d, o = AWriteNC x d)).
Proof.
  intros Hm Hre. destruct o as [k d|k d| |k| |m]; cbn [sp_step]; rewrite ?Hm.
  - destruct (str_eqb_spec x k) as [->|Hn].
    + destruct (dc s k) eqn:E1; cbn [present orb].
      * split; intros; [congruence|left; congruence].
      * destruct (present (dn s k) && negb (append_completes_nc p)); cbn [dc dn].
        -- split; intros; [congruence|left; congruence].
        -- split; intros; [congruence|right; left; eauto].
    + destruct (_ || _); cbn [dc dn]; t_other; intuition congruence.
  - destruct (str_eqb_spec x k) as [->|Hn].
    + destruct (dc s k) eqn:E1; cbn [present orb].
      * split; intros; [congruence|left; congruence].
      * destruct (dn s k) eqn:E2; cbn [present andb].
        -- destruct (append_rewrites_nc p) eqn:EP; cbn [negb dc dn]; rewrite ?E1, ?E2.
           ++ split; intros; [congruence|]. right. right. right. right. split; [reflexivity|eauto].
           ++ split; intros; [congruence|left; congruence].
        -- cbn [dc dn]. rewrite ?E1. split; intros; congruence.
    + destruct (_ || _); cbn [dc dn]; t_other; intuition congruence.
  - intuition congruence.
  - destruct (str_eqb_spec x k) as [->|Hn]; cbn [dc dn].
    + split; intros; [congruence|right; right; left; reflexivity].
    + t_other. intuition congruence.
  - cbn [dc dn]. split; intros; [congruence|right; right; right; left; reflexivity].
  - exfalso. eapply Hre. reflexivity.
Qed.

(** read-only mode never mutates *)
Lemma sp_readonly_never_mutates p s o :
  dm s = MR -> (forall m, o <> AReopen m) -> sp_step p s o = s.
Proof.
  intros Hm Hre. destruct o; cbn [sp_step]; rewrite ?Hm; try reflexivity.
  exfalso. eapply Hre. reflexivity.
Qed.
