(** C16 — specification of "the richer model, initialised from the nested one,
    has the same rate matrix": stated on the plain object, the per-cell
    product of rate parameters (the structure of calcQ: every rate parameter
    multiplies the cells its predicate covers), over ANY commutative monoid
    of parameter values. *)
From Coq Require Import Permutation.
From CG3 Require Import Lib.PyZ Lib.Semiring Model.Nested.

Section Rate.
  Variable A : Type.
  Variable m : cm_ops A.

  Definition covers (c : cell) (p : name * list cell) : bool :=
    negb (name_eqb (fst p) ref_cell) && mem_cell c (snd p).

  (** names of the (non reference) parameters whose coordinates contain the cell *)
  Definition covering (cs : coords) (c : cell) : list name := map fst (filter (covers c) cs).

  (** the rate of a cell under the parameter values [theta] *)
  Definition rate (cs : coords) (theta : name -> A) (c : cell) : A := big_op m theta (covering cs c).

  (** value a rich parameter with coordinates [rc] has after
      initialise_from_nested on a fresh function (all rate parameters at the
      unit): the value of the chosen simple parameter; parameters that fall
      in no simple parameter, or in the simple model's reference cell, keep
      the unit *)
  Definition projected (ex : bool) (rich simple : coords) (theta : name -> A) (rc : list cell) : A :=
    match pick_simple ex rich simple rc with
    | PChosen s => if name_eqb s ref_cell then cm_unit m else theta s
    | _ => cm_unit m
    end.

  Definition theta' (ex : bool) (rich simple : coords) (theta : name -> A) (rp : name) : A :=
    projected ex rich simple theta (coords_of rp rich).
End Rate.
Arguments rate {A} m cs theta c.
Arguments projected {A} m ex rich simple theta rc.
Arguments theta' {A} m ex rich simple theta rp.

(** * the nesting condition, decidable from the two coordinate dictionaries *)

Fixpoint remove_one (x : name) (l : list name) : option (list name) :=
  match l with
  | [] => None
  | y :: t => if name_eqb x y then Some t
              else match remove_one x t with Some t' => Some (y :: t') | None => None end
  end.

Fixpoint is_perm (l1 l2 : list name) : bool :=
  match l1 with
  | [] => match l2 with [] => true | _ => false end
  | x :: t => match remove_one x l2 with Some l2' => is_perm t l2' | None => false end
  end.

Definition names_of_pick (pk : pick) : list name :=
  match pk with PChosen s => if name_eqb s ref_cell then [] else [s] | _ => [] end.

(** simple parameters the rich parameters covering [c] are initialised from *)
Definition mapped_names (ex : bool) (rich simple : coords) (c : cell) : list name :=
  flat_map (fun p => names_of_pick (pick_simple ex rich simple (snd p))) (filter (covers c) rich).

(** the same from the precomputed table *)
Definition mapped_names_tbl (tbl : list ((name * list cell) * pick)) (c : cell) : list name :=
  flat_map (fun rp => names_of_pick (snd rp)) (filter (fun rp => covers c (fst rp)) tbl).

Definition universe (rich simple : coords) : list cell := flat_map snd rich ++ flat_map snd simple.

(** no tie, and on every cell the rich parameters covering it are initialised
    from exactly the simple parameters covering it *)
Definition nested_ok (ex : bool) (rich simple : coords) : bool :=
  let tbl := pick_table ex rich simple in
  negb (existsb (fun rp => is_tie (snd rp)) tbl) &&
  forallb (fun c => is_perm (mapped_names_tbl tbl c) (covering simple c)) (universe rich simple).

(** * scoping *)

(** value the rules give parameter [p] on edge [e]: first rule of that
    parameter that is global or lists the edge *)
Fixpoint value_at (rules : list rule) (p e : name) : option Z :=
  match rules with
  | [] => None
  | r :: t =>
      if name_eqb (r_par r) p && (match r_edges r with None => true | Some es => mem_name e es end)
      then Some (r_val r) else value_at t p e
  end.

(** value the rules give the (globally scoped) parameter [n]: first rule of that name *)
Fixpoint lookup_rule (n : name) (rs : list rule) : option Z :=
  match rs with
  | [] => None
  | r :: t => if name_eqb (r_par r) n then Some (r_val r) else lookup_rule n t
  end.

(** a fresh likelihood function has every rate parameter at 1 *)
Definition theta_from (rules : list rule) (n : name) : Z :=
  match lookup_rule n rules with Some v => v | None => 1 end.

Definition covers_edge (n : rule) (e : name) : bool :=
  match r_edges n with None => true | Some ns => mem_name e ns end.
