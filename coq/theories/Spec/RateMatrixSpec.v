(** Specification side of C05, on the plain mathematical objects (a matrix is a
    function of two indices below [n]; no lists, no code structure):
    what a calibrated rate matrix, a stationary / reversible process and a
    transition matrix are, and the published definition of the rate matrix of
    a (time-reversible or general) substitution model. *)
From Coq Require Import Arith.
From CG3 Require Import Lib.FieldAlg Lib.Mat.

Set Implicit Arguments.

Section Spec.
  Variable R : Type.
  Variable o : fld_ops R.
  Local Notation "0" := (fzero o).
  Local Notation "1" := (fone o).
  Local Infix "+" := (fadd o).
  Local Infix "*" := (fmul o).
  Local Infix "/" := (fdiv o).

  (** every row of the generator sums to zero *)
  Definition rate_rows_zero (n : nat) (Q : fmat R) : Prop :=
    forall i, (i < n)%nat -> sumn o n (fun j => Q i j) = 0.

  (** expected rate at the motif probabilities is one: -Σ π_i Q_ii = 1 *)
  Definition calibrated (n : nat) (p : nat -> R) (Q : fmat R) : Prop :=
    fopp o (sumn o n (fun i => p i * Q i i)) = 1.

  (** π Q = 0 *)
  Definition stationary (n : nat) (p : nat -> R) (Q : fmat R) : Prop :=
    forall j, (j < n)%nat -> sumn o n (fun i => p i * Q i j) = 0.

  (** detailed balance *)
  Definition reversible (n : nat) (p : nat -> R) (Q : fmat R) : Prop :=
    forall i j, (i < n)%nat -> (j < n)%nat -> p i * Q i j = p j * Q j i.

  (** rows of a transition matrix sum to one *)
  Definition row_stochastic (n : nat) (P : fmat R) : Prop :=
    forall i, (i < n)%nat -> sumn o n (fun j => P i j) = 1.

  (** π P = π *)
  Definition preserves (n : nat) (p : nat -> R) (P : fmat R) : Prop :=
    forall j, (j < n)%nat -> sumn o n (fun i => p i * P i j) = p j.

  Definition is_identity (n : nat) (P : fmat R) : Prop :=
    forall i j, (i < n)%nat -> (j < n)%nat -> P i j = if Nat.eqb i j then 1 else 0.

  (** rate-class multipliers average to one under the class probabilities *)
  Definition mean_one (n : nat) (w r : nat -> R) : Prop := sumn o n (fun b => w b * r b) = 1.

  (** Published definition of a substitution-model generator from off-diagonal
      rates [q i j] (i ≠ j): the diagonal makes rows vanish and the whole matrix
      is divided by the expected rate μ = Σ_i π_i Σ_{j≠i} q_ij. *)
  Definition offdiag_total (n : nat) (q : fmat R) (i : nat) : R :=
    sumn o n (fun j => if Nat.eqb j i then 0 else q i j).
  Definition expected_rate (n : nat) (p : nat -> R) (q : fmat R) : R :=
    sumn o n (fun i => p i * offdiag_total n q i).
  Definition spec_Q (n : nat) (p : nat -> R) (q : fmat R) : fmat R :=
    fun i j => (if Nat.eqb i j then fopp o (offdiag_total n q i) else q i j) / expected_rate n p q.

  (** time-reversible family: q_ij = r_ij · π_j with r symmetric (JC69, F81, K80,
      HKY85, TN93, GTR and the codon models with "tuple" motif probabilities) *)
  Definition reversible_rates (p : nat -> R) (r : fmat R) : fmat R := fun i j => r i j * p j.
End Spec.
