(** C15 — specification-level definitions, stated on the plain mathematical
    objects (columns of an alignment, a distance function on indices), not on
    the loops of the code. *)
From CG3 Require Import Lib.PyZ Model.Dist Model.NJ.
From Coq Require Import QArith Qminmax.
Open Scope Z_scope.

(** ------------------------------------------------------------------ alignments *)

(** number of columns in a list of columns whose pair of states is exactly
    (a, b) with both states canonical (>= 0) *)
Fixpoint count_pairs (cols : list (Z * Z)) (a b : Z) : Z :=
  match cols with
  | [] => 0
  | (x, y) :: r =>
      (if (0 <=? x) && (0 <=? y) && (x =? a) && (y =? b) then 1 else 0) + count_pairs r a b
  end.

(** the same, reading the two index sequences in parallel *)
Fixpoint count_cols (s1 s2 : list Z) (a b : Z) : Z :=
  match s1, s2 with
  | x :: r1, y :: r2 =>
      (if (0 <=? x) && (0 <=? y) && (x =? a) && (y =? b) then 1 else 0) + count_cols r1 r2 a b
  | _, _ => 0
  end.

(** number of columns in which both states are canonical states of the alphabet *)
Fixpoint valid_columns (dim : Z) (cols : list (Z * Z)) : Z :=
  match cols with
  | [] => 0
  | (x, y) :: r =>
      (if (0 <=? x) && (x <? dim) && (0 <=? y) && (y <? dim) then 1 else 0) + valid_columns dim r
  end.

(** number of those columns in which the two states agree *)
Fixpoint matching_columns (dim : Z) (cols : list (Z * Z)) : Z :=
  match cols with
  | [] => 0
  | (x, y) :: r =>
      (if (0 <=? x) && (x <? dim) && (0 <=? y) && (x =? y) then 1 else 0) + matching_columns dim r
  end.

(** what the fixed source stores for a pair of non-identical index arrays *)
Definition cell_rule (f : zmat -> dist_result) (dim : Z) (s1 s2 : list Z) : dist_result :=
  let m := diversity s1 s2 in
  if negb (any_offdiag dim m) then (if 0 <? msum dim m then DVal (msum dim m) 0%Q (RQ 0%Q) else f m) else f m.


(** ------------------------------------------------------------------ NJ *)
Open Scope Q_scope.

(** [d] restricted to indices < L looks, around the pair (i, j), like a tree
    metric in which i and j are a cherry: they hang on a common node u by
    branches of length a and b, and D k is the distance from u to every other
    index k.  (Every additive matrix of a tree in which i, j are siblings
    satisfies this with D = the path length from their parent.) *)
Record cherry_at (L : nat) (d : qmat) (i j : nat) (a b : Q) (D : nat -> Q) : Prop := {
  ch_i : (i < L)%nat; ch_j : (j < L)%nat; ch_ne : i <> j;
  ch_ij : d i j == a + b; ch_ji : d j i == a + b;
  ch_diag : forall k, (k < L)%nat -> d k k == 0;
  ch_other : forall k, (k < L)%nat -> k <> i -> k <> j ->
     d k i == a + D k /\ d i k == a + D k /\ d k j == b + D k /\ d j k == b + D k }.

(** tree metrics on indices < L, by the four-point condition (Buneman): the
    matrices that are the path-length metric of some tree with positive lengths *)
Definition tree_metric (L : nat) (d : qmat) : Prop :=
  (forall x, (x < L)%nat -> d x x == 0) /\
  (forall x y, (x < L)%nat -> (y < L)%nat -> d x y == d y x) /\
  (forall x y, (x < L)%nat -> (y < L)%nat -> x <> y -> 0 < d x y) /\
  (forall x y z w, (x < L)%nat -> (y < L)%nat -> (z < L)%nat -> (w < L)%nat ->
     d x y + d z w <= Qmax (d x z + d y w) (d x w + d y z)).

(** new index -> old index after the code moved the last row/column into the slot of the eliminated j *)
Definition ren (L j k : nat) : nat := if Nat.eqb k j then (L - 1)%nat else k.

(** the metric with the cherry contracted: old index i now denotes the new node u *)
Definition contracted (d : qmat) (i : nat) (D : nat -> Q) : qmat :=
  fun x y => if Nat.eqb x i then (if Nat.eqb y i then 0 else D y)
             else if Nat.eqb y i then D x else d x y.

(** ------------------------------------------------------------------ UPGMA *)

Definition u_len (n : unode) : option Q := match n with UN _ l _ _ => l end.
(** depth of every tip below the parent of [c], through [c] *)
Definition child_depths (c : unode) : list (Z * Q) :=
  map (fun nd => (fst nd, snd nd + olen (u_len c))) (u_tip_depths c).

(** [n] is a correctly dated subtree of height [h]: every tip is at depth h
    below it and (for an internal node) the TipLength stored on its first
    child — the value the code reads back — is h *)
Definition height_ok (n : unode) (h : Q) : Prop :=
  match u_children n with
  | [] => h == 0
  | c0 :: _ => (exists t, u_tiplength c0 = Some t /\ t == h) /\ Forall (fun nd => snd nd == h) (u_tip_depths n)
  end.

(** names of the tips below a UPGMA node; every listed tip-to-tip path length is the original distance *)
Definition unames (t : unode) : list Z := map fst (u_tip_depths t).
Definition udists_ok (orig : Z -> Z -> Q) (t : unode) : Prop :=
  Forall (fun t3 => snd t3 == orig (fst (fst t3)) (snd (fst t3))) (u_tip_dists t).
Definition pow2 (c : nat) : Q := inject_Z (2 ^ Z.of_nat c).

(** ------------------------------------------------------------------ NJ: whole runs *)

(** every branch length of the tree is strictly positive *)
Fixpoint pos_tree (t : ltree) : Prop :=
  match t with
  | LTip _ => True
  | LNode cs =>
      (fix go (cs : list (Q * ltree)) : Prop :=
         match cs with
         | [] => True
         | lc :: r => 0 < fst lc /\ pos_tree (snd lc) /\ go r
         end) cs
  end.

(** every tip-to-tip path length listed for the tree is the original distance *)
Definition dists_ok (orig : Z -> Z -> Q) (T : ltree) : Prop :=
  Forall (fun t3 => snd t3 == orig (fst (fst t3)) (snd (fst t3))) (tip_dists T).

(** the partial tree represents the original metric [orig] on tip names: distances inside each
    subtree are original distances, and the matrix entry between two subtrees is what is left of
    the original distance after the depths of the two tips *)
Record state_ok (orig : Z -> Z -> Q) (t : partial_tree) : Prop := {
  so_len : length (pt_nodes t) = pt_L t;
  so_sym : forall k l, (k < pt_L t)%nat -> (l < pt_L t)%nat -> pt_d t k l == pt_d t l k;
  so_diag : forall k, (k < pt_L t)%nat -> pt_d t k k == 0;
  so_between : forall k l, (k < pt_L t)%nat -> (l < pt_L t)%nat -> k <> l ->
     forall x y, In x (tip_depths (nth k (pt_nodes t) dummy_tree)) -> In y (tip_depths (nth l (pt_nodes t) dummy_tree)) ->
     orig (fst x) (fst y) == snd x + pt_d t k l + snd y;
  so_within : forall k, (k < pt_L t)%nat -> dists_ok orig (nth k (pt_nodes t) dummy_tree);
  so_pos : forall k, (k < pt_L t)%nat -> pos_tree (nth k (pt_nodes t) dummy_tree) }.

(** "the score criterion picked a cherry (with positive branches) at every step of this run, and
    the last three lengths are positive": what the unproved consistency lemma would give for
    every tree metric; checkable by computation on an instance *)
Inductive good_run : partial_tree -> Prop :=
| good_final : forall t, pt_L t = 3%nat -> Forall (fun l => 0 < l) (final_lengths (pt_d t)) -> good_run t
| good_step : forall t t' a b D,
    (4 <= pt_L t)%nat -> 0 < a -> 0 < b ->
    cherry_at (pt_L t) (pt_d t) (fst (best_pair t)) (snd (best_pair t)) a b D ->
    join t (fst (best_pair t)) (snd (best_pair t)) = Some t' ->
    good_run t' -> good_run t.
