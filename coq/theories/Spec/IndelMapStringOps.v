(** C08 — specification side, part 2: the operations of the property read
    directly on the gapped string (its gap mask, [true] = residue).  Nothing
    here mentions the map record or the operations of the model. *)
From CG3 Require Import Lib.PyZ.

(** maximal runs of the character [c] as half-open alignment intervals;
    [i] is the index of the head of [k], [cur] the start of the run being read *)
Fixpoint runs_from (c : bool) (i : Z) (cur : option Z) (k : list bool) : list (Z * Z) :=
  match k with
  | [] => match cur with Some s => [(s, i)] | None => [] end
  | x :: k' =>
      if Bool.eqb x c then
        runs_from c (i + 1) (match cur with Some s => Some s | None => Some i end) k'
      else
        (match cur with Some s => [(s, i)] | None => [] end) ++ runs_from c (i + 1) None k'
  end.

(** gap runs / ungapped segments of a gapped string, alignment coordinates *)
Definition gap_runs (k : list bool) : list (Z * Z) := runs_from false 0 None k.
Definition seg_runs (k : list bool) : list (Z * Z) := runs_from true 0 None k.

Fixpoint count_res (k : list bool) : Z :=
  match k with [] => 0 | true :: t => 1 + count_res t | false :: t => count_res t end.

(** the same listings in sequence coordinates: an ungapped segment as the
    residues it holds, a gap run as (insertion point, length) *)
Definition seq_segments (k : list bool) : list (Z * Z) :=
  map (fun se => let r := count_res (firstn (Z.to_nat (fst se)) k) in (r, r + (snd se - fst se))) (seg_runs k).
Definition gap_insertions (k : list bool) : list (Z * Z) :=
  map (fun se => (count_res (firstn (Z.to_nat (fst se)) k), snd se - fst se)) (gap_runs k).

(** columns of two equally long rows *)
Fixpoint zip_with {A B C} (f : A -> B -> C) (a : list A) (b : list B) : list C :=
  match a, b with x :: a', y :: b' => f x y :: zip_with f a' b' | _, _ => [] end.

(** [minus_gaps]: drop the columns in which both rows have a gap *)
Fixpoint mask_minus (k1 k2 : list bool) : list bool :=
  match k1, k2 with
  | x :: a, y :: b => if negb x && negb y then mask_minus a b else x :: mask_minus a b
  | _, _ => []
  end.

(** [shared_gaps]: runs of columns in which both rows have a gap *)
Definition mask_shared (k1 k2 : list bool) : list (Z * Z) :=
  gap_runs (zip_with orb k1 k2).

(** [merge_maps] (two gap layouts of the same sequence): the number of gap
    characters in front of each residue, and after the last one, is added *)
Fixpoint profile_from (acc : Z) (k : list bool) : list Z :=
  match k with
  | [] => [acc]
  | true :: t => acc :: profile_from 0 t
  | false :: t => profile_from (acc + 1) t
  end.
Definition profile (k : list bool) : list Z := profile_from 0 k.

Fixpoint unprofile (p : list Z) : list bool :=
  match p with
  | [] => []
  | [g] => repeat false (Z.to_nat g)
  | g :: t => repeat false (Z.to_nat g) ++ true :: unprofile t
  end.

Definition mask_merge (k1 k2 : list bool) : list bool :=
  unprofile (zip_with Z.add (profile k1) (profile k2)).

(** [joined_segments]: the pieces [k[s:e]] glued together *)
Definition mask_join (k : list bool) (cs : list (Z * Z)) : list bool :=
  flat_map (fun se => firstn (Z.to_nat (snd se - fst se)) (skipn (Z.to_nat (fst se)) k)) cs.

Example gap_runs_ex : gap_runs [true; false; false; true; false] = [(1, 3); (4, 5)].
Proof. reflexivity. Qed.
Example seg_runs_ex : seg_runs [true; false; false; true; false] = [(0, 1); (3, 4)].
Proof. reflexivity. Qed.
Example mask_merge_ex : mask_merge [true; false; true] [false; true; true; false] = [false; true; false; true; false].
Proof. reflexivity. Qed.
Example unprofile_profile_ex : unprofile (profile [false; true; false; false; true]) = [false; true; false; false; true].
Proof. reflexivity. Qed.
