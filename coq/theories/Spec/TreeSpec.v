(** C09 — specification: tip-to-tip path lengths of a rose tree with branch
    lengths, stated independently of the code's distance computation.

    An edge is identified with the node below it.  Removing the edge above
    node [c] cuts the tip set into [tips c] and the rest; the path between two
    tips [a], [b] consists of exactly the edges whose removal separates them.
    So      pathlen t a b  =  sum over the non-root nodes c of t of
                               len(c) * [exactly one of a, b is below c].
    This formulation does not mention a root orientation beyond "which side of
    the edge", which is what makes it the right invariant for re-rooting.
    A missing length counts as [dflt] (the code uses 1). *)
From Coq Require Import Permutation.
From CG3 Require Import Lib.PyZ Lib.Val Lib.Rose Model.Tree.

Definition zsum (l : list Z) : Z := fold_right Z.add 0 l.

(** does the edge above [c] separate [a] from [b] *)
Definition sep (c : tree) (a b : name) : bool :=
  xorb (memb a (tips c)) (memb b (tips c)).

(** contribution of the edge above [c] *)
Definition edge_w (dflt : Z) (c : tree) (a b : name) : Z :=
  if sep c a b then clen dflt c else 0.

Fixpoint pathlen (dflt : Z) (t : tree) (a b : name) : Z :=
  match t with
  | Node _ _ cs => zsum (map (fun c => edge_w dflt c a b + pathlen dflt c a b) cs)
  end.

(** contribution of a child subtree: its own edge plus everything below *)
Definition contrib (dflt : Z) (a b : name) (c : tree) : Z :=
  edge_w dflt c a b + pathlen dflt c a b.

Definition contribs (dflt : Z) (a b : name) (cs : list tree) : Z :=
  zsum (map (contrib dflt a b) cs).

Lemma pathlen_node dflt n l cs a b :
  pathlen dflt (Node n l cs) a b = contribs dflt a b cs.
Proof. reflexivity. Qed.

(** the whole distance matrix (upper triangle in tip order) *)
Definition pathlen_matrix (dflt : Z) (t : tree) : list Z :=
  map (fun p => pathlen dflt t (fst p) (snd p)) (upper_pairs (tips t)).

(** every non-root node carries a length / a non-negative / a positive length *)
Fixpoint lens_ok (P : Z -> bool) (t : tree) : bool :=
  match t with
  | Node _ _ cs =>
      forallb (fun c => match tlen c with Some z => P z | None => false end && lens_ok P c) cs
  end.

Definition has_lens : tree -> bool := lens_ok (fun _ => true).
Definition nonneg_lens : tree -> bool := lens_ok (fun z => 0 <=? z).
Definition pos_lens : tree -> bool := lens_ok (fun z => 0 <? z).

(** no node below the root has exactly one child *)
Fixpoint no_unary (t : tree) : bool :=
  match t with
  | Node _ _ cs => forallb (fun c => negb (Nat.eqb (length (kids c)) 1) && no_unary c) cs
  end.

(* ------------------------------------------------------------------ basic algebra of sums *)

Lemma zsum_app l1 l2 : zsum (l1 ++ l2) = zsum l1 + zsum l2.
Proof. induction l1 as [|x l1 IH]; simpl; [reflexivity|]. rewrite IH. lia. Qed.

Lemma zsum_perm l1 l2 : Permutation l1 l2 -> zsum l1 = zsum l2.
Proof. induction 1; simpl; lia. Qed.

Lemma zsum_nonneg l : Forall (fun x => 0 <= x) l -> 0 <= zsum l.
Proof. induction 1; simpl; lia. Qed.

Lemma zsum_map_ext {A} (f g : A -> Z) l :
  Forall (fun x => f x = g x) l -> zsum (map f l) = zsum (map g l).
Proof. induction 1 as [|x l Hx _ IH]; simpl; [reflexivity|]. rewrite Hx, IH. reflexivity. Qed.

Lemma zsum_map_le {A} (f g : A -> Z) l :
  Forall (fun x => f x <= g x) l -> zsum (map f l) <= zsum (map g l).
Proof. induction 1 as [|x l Hx _ IH]; simpl; lia. Qed.

Lemma contribs_app dflt a b l1 l2 :
  contribs dflt a b (l1 ++ l2) = contribs dflt a b l1 + contribs dflt a b l2.
Proof. unfold contribs. rewrite map_app. apply zsum_app. Qed.

Lemma contribs_cons dflt a b c l :
  contribs dflt a b (c :: l) = contrib dflt a b c + contribs dflt a b l.
Proof. reflexivity. Qed.

Lemma contribs_perm dflt a b l1 l2 :
  Permutation l1 l2 -> contribs dflt a b l1 = contribs dflt a b l2.
Proof. intros HP. unfold contribs. apply zsum_perm. apply Permutation_map. exact HP. Qed.

Lemma tips_of_perm l1 l2 : Permutation l1 l2 -> Permutation (tips_of l1) (tips_of l2).
Proof.
  induction 1 as [|x l1 l2 _ IH|x y l|l1 l2 l3 _ IH1 _ IH2].
  - constructor.
  - rewrite !tips_of_cons. apply Permutation_app_head. exact IH.
  - rewrite !tips_of_cons. rewrite !app_assoc. apply Permutation_app_tail. apply Permutation_app_comm.
  - etransitivity; eauto.
Qed.

(** two trees with the same tip set are separated from [a], [b] alike *)
Lemma sep_perm c c' a b : Permutation (tips c) (tips c') -> sep c a b = sep c' a b.
Proof. intros HP. unfold sep. rewrite (memb_perm a _ _ HP), (memb_perm b _ _ HP). reflexivity. Qed.

(** the two sides of a cut: when [a] and [b] both lie in the disjoint union of
    [S] and [T], they are separated by [S] iff they are separated by [T] *)
Lemma xor_sides (a b : name) (S T : list name) :
  NoDup (S ++ T) -> In a (S ++ T) -> In b (S ++ T) ->
  xorb (memb a S) (memb b S) = xorb (memb a T) (memb b T).
Proof.
  intros HN Ha Hb.
  assert (Hd : forall x, In x S -> In x T -> False).
  { intros x HS HT. apply in_split in HS. destruct HS as (s1 & s2 & ->).
    rewrite <- app_assoc in HN. simpl in HN. apply NoDup_remove_2 in HN.
    apply HN. rewrite app_assoc. apply in_or_app. right. exact HT. }
  assert (Hx : forall x, In x (S ++ T) -> memb x T = negb (memb x S)).
  { intros x Hx. apply in_app_or in Hx.
    destruct (memb x S) eqn:ES; destruct (memb x T) eqn:ET; try reflexivity; exfalso.
    - apply memb_In in ES, ET. eauto.
    - apply memb_false_In in ES, ET. tauto. }
  rewrite (Hx a Ha), (Hx b Hb). destruct (memb a S), (memb b S); reflexivity.
Qed.
