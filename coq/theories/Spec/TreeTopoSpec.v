(** C09 — specification of the UNROOTED TOPOLOGY of a rose tree: the set of
    bipartitions ("splits") of the tip set induced by its edges.

    An edge is identified with the node below it; its split is
    { tips below the node | all other tips }.  [cuts t] lists the tip set below
    every non-root node.  Two tip subsets describe the same split of the tip set
    [U] when they are equal as sets or complementary in [U] ([cut_eq]) — which
    side of an edge is "below" depends on where the root is, the split does not.
    A split is trivial when one side has fewer than two tips (every tree on the
    same tips has those); single-child nodes repeat the split of their child,
    which a set does not notice.  Two trees have the same unrooted topology when
    each non-trivial split of one is a split of the other ([same_topology]). *)
From CG3 Require Import Lib.PyZ Lib.Val Lib.Rose Model.Tree Model.TreeDist.

(** the tip sets below the non-root nodes, one per edge (preorder) *)
Fixpoint cuts (t : tree) : list (list name) :=
  match t with
  | Node _ _ cs => flat_map (fun c => tips c :: cuts c) cs
  end.

Definition cuts_of (cs : list tree) : list (list name) := flat_map (fun c => tips c :: cuts c) cs.

(** [c] and [c'] are the same bipartition of [U] *)
Definition cut_eq (U c c' : list name) : bool := set_eqb c c' || set_eqb c (other_side U c').

Definition cut_mem (U : list name) (L : list (list name)) (c : list name) : bool := existsb (cut_eq U c) L.

(** at least two tips of [U] inside [c] / outside [c] *)
Definition two_in (U c : list name) : bool :=
  existsb (fun a => existsb (fun b => negb (str_eqb a b) && memb a c && memb b c) U) U.
Definition two_out (U c : list name) : bool :=
  existsb (fun a => existsb (fun b => negb (str_eqb a b) && negb (memb a c) && negb (memb b c)) U) U.
Definition nontrivial (U c : list name) : bool := two_in U c && two_out U c.

(** every non-trivial split listed in [L1] is listed in [L2] *)
Definition splits_incl (U : list name) (L1 L2 : list (list name)) : Prop :=
  forall c, In c L1 -> nontrivial U c = true -> cut_mem U L2 c = true.

Definition splits_eq (U : list name) (L1 L2 : list (list name)) : Prop :=
  splits_incl U L1 L2 /\ splits_incl U L2 L1.

Definition same_topology (t1 t2 : tree) : Prop := splits_eq (tips t1) (cuts t1) (cuts t2).

(** restriction of a tip subset to the kept names [S] (get_sub_tree) *)
Definition restrict (S c : list name) : list name := filter (fun n => memb n S) c.

(** the sub-tree [r] has exactly the splits of [t] restricted to the kept tips *)
Definition restricted_topology (S : list name) (t r : tree) : Prop :=
  splits_eq (tips r) (map (restrict S) (cuts t)) (cuts r).

(** executable: the non-trivial splits (one side each), for the correspondence check *)
Definition splits (t : tree) : list (list name) := filter (nontrivial (tips t)) (cuts t).
