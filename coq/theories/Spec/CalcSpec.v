(** C07 — specification: a FRESH evaluation of the same DAG at the current
    parameter values, with no history.  Independent of the double buffers, the
    undo, the recycling and the dirty set of Model/Calc.v (it only shares the
    description of the static graph). *)
From Coq Require Import List Arith Bool Lia.
Import ListNotations.
From CG3 Require Import Model.Calc.

Section Spec.
  Variable V : Type.
  Variable dflt : V.
  Variable f : nat -> list V -> option V.
  Variable tr : nat -> V -> V.

  Definition vargs (g : graph) (r : nat) (vs : list V) : list V :=
    map (fun a => nth a vs dflt) (args_of (cell_at g r)).

  (** evaluate the cells of [rs] (ascending ranks) in order; input cells keep
      the value the valuation gives them *)
  Fixpoint eval_ranks (g : graph) (rs : list nat) (vs : list V) : option (list V) :=
    match rs with
    | [] => Some vs
    | r :: p =>
        if is_eval (cell_at g r)
        then match f r (vargs g r vs) with
             | None => None
             | Some v => eval_ranks g p (upd r v vs)
             end
        else eval_ranks g p vs
    end.

  (** [inp] : a value for every rank (those at evaluated ranks are ignored) *)
  Definition fresh (g : graph) (inp : list V) : option (list V) :=
    eval_ranks g (seq 0 (length g)) inp.

  (** a valuation is a solution of the DAG equations *)
  Definition consistent (g : graph) (vs : list V) : Prop :=
    forall r, r < length g -> is_eval (cell_at g r) = true -> f r (vargs g r vs) = Some (nth r vs dflt).

  (** the input valuation for optimiser vector [x] (plus the fixed values of the
      constant cells, [cvals], by rank) *)
  Definition inputs_of (g : graph) (cvals x : list V) : list V :=
    map (fun r => if r <? nopt g then tr r (nth r x dflt) else nth r cvals dflt) (seq 0 (length g)).

  Definition set_all (changes : list (nat * V)) (x : list V) : list V :=
    fold_left (fun x ch => upd (fst ch) (snd ch) x) changes x.

  (** the parameter vector a step asks for *)
  Definition requested (x : list V) (o : op V) : list V :=
    match o with
    | OChange c => set_all c x
    | OVec values => values
    end.

  (** [hist_ok g cvals x ops rs xf]: the results [rs] of the history [ops] started
      at optimiser vector [x] are those of a history-free evaluator:
      - every returned value is the output cell of a FRESH evaluation at the
        requested vector, which becomes the current vector;
      - a step raises only if the fresh evaluation at the requested vector raises;
        it leaves the calculator at SOME vector x' at which a fresh evaluation
        succeeds (the history goes on from there);
      - the internal assertion never fires. *)
  Inductive hist_ok (g : graph) (cvals : list V) : list V -> list (op V) -> list (res V) -> list V -> Prop :=
  | h_nil : forall x, hist_ok g cvals x [] [] x
  | h_val : forall x o v ops rs xf vs,
      fresh g (inputs_of g cvals (requested x o)) = Some vs ->
      v = nth (length g - 1) vs dflt ->
      hist_ok g cvals (requested x o) ops rs xf ->
      hist_ok g cvals x (o :: ops) (RVal v :: rs) xf
  | h_exc : forall x o k x' ops rs xf vs,
      fresh g (inputs_of g cvals (requested x o)) = None ->
      fresh g (inputs_of g cvals x') = Some vs ->
      hist_ok g cvals x' ops rs xf ->
      hist_ok g cvals x (o :: ops) (RExc k :: rs) xf.
End Spec.


(** controller: evaluate every definition once, in topological order, from the
    assigned leaf settings *)
Section CSpec.
  Variable V : Type.
  Variable dflt : V.
  Variable h : nat -> list V -> V.

  Definition cfresh (g : dgraph) (asg : list V) : list V :=
    fold_left (fun vals d => upd d (recompute V dflt h g asg vals d) vals) (seq 0 (length g)) (repeat dflt (length g)).

  (** every definition equals its defining equation *)
  Definition csolution (g : dgraph) (asg vals : list V) : Prop :=
    forall d, d < length g -> nth d vals dflt = recompute V dflt h g asg vals d.
End CSpec.
