(** C08 — specification side: what a gapped-coordinate map *means*.

    The plain mathematical object is the gap mask of the gapped string,
    [list bool] with [true] = residue and [false] = gap character.  [abs] reads
    a map [(gap_pos, cum_gap_lengths, parent_length)] the way the class
    docstring defines the three fields: before the [j]-th gap insertion point
    [gap_pos[j]] (a sequence coordinate) come the residues since the previous
    insertion point, then [cum[j] - cum[j-1]] gap characters; after the last
    gap come the remaining residues up to [parent_length].

    Everything in this file is independent of the operations of the model
    (it only mentions the record type). *)
From CG3 Require Import Lib.PyZ Model.IndelMap.

(** ** the string a map denotes *)

Fixpoint expand (pp pc : Z) (gp cl : list Z) (plen : Z) : list bool :=
  match gp, cl with
  | p :: gp', c :: cl' =>
      repeat true (Z.to_nat (p - pp)) ++ repeat false (Z.to_nat (c - pc)) ++ expand p c gp' cl' plen
  | _, _ => repeat true (Z.to_nat (plen - pp))
  end.

Definition abs (m : imap) : list bool :=
  expand 0 0 (gap_pos m) (cum_gap_lengths m) (parent_length m).

(** ** well-formed maps: insertion points strictly increasing inside
    [0, parent_length], cumulative lengths strictly increasing and positive,
    arrays equally long *)

Fixpoint wf_from (pp pc : Z) (gp cl : list Z) (plen : Z) : Prop :=
  match gp, cl with
  | [], [] => pp <= plen
  | p :: gp', c :: cl' => pp < p /\ pc < c /\ wf_from p c gp' cl' plen
  | _, _ => False
  end.

Definition WF (m : imap) : Prop :=
  0 <= parent_length m /\
  wf_from (-1) 0 (gap_pos m) (cum_gap_lengths m) (parent_length m).

(** ** string operations *)

(** [k[a:b]] for [0 <= a <= b] *)
Definition msub {A} (k : list A) (a b : Z) : list A :=
  firstn (Z.to_nat (b - a)) (skipn (Z.to_nat a) k).

(** number of residues *)
Fixpoint residues (k : list bool) : Z :=
  match k with
  | [] => 0
  | true :: t => 1 + residues t
  | false :: t => residues t
  end.

(** every character repeated [s] times *)
Definition stretch {A} (s : Z) (k : list A) : list A :=
  flat_map (fun x => repeat x (Z.to_nat s)) k.

(** [a] is the alignment index of residue number [s] *)
Definition is_align_index (k : list bool) (s a : Z) : Prop :=
  0 <= a < zlen k /\ znth false k a = true /\ residues (firstn (Z.to_nat a) k) = s.

(** [a] is the alignment stop for [s] residues: the shortest prefix-closing
    index, i.e. [k[:a]] holds [s] residues and does not end in a gap *)
Definition is_align_stop (k : list bool) (s a : Z) : Prop :=
  0 <= a <= zlen k /\ residues (firstn (Z.to_nat a) k) = s /\
  (a = 0 \/ znth false k (a - 1) = true).

Definition ends_in_gap (k : list bool) : Prop := exists k', k = k' ++ [false].
Definition starts_with_gap (k : list bool) : Prop := exists k', k = false :: k'.
