(** C16 — specification for the stationary -> non-stationary projection:
    the two rate matrices, cell by cell, over exact rationals. *)
From CG3 Require Import Lib.PyZ Lib.Semiring Model.Nested Model.NestedNS Spec.NestedSpec.

Definition qcmul : cm_ops Qc := mk_cm Qcmult 1%Qc.

(** off-diagonal entry of the STATIONARY model's rate matrix (before
    calibration): product of the rate parameters covering the cell, times the
    motif probability of the target state *)
Definition Q_stationary (pi : Z -> Qc) (simple : coords) (theta : name -> Qc) (c : cell) : Qc :=
  (pi (snd c) * rate qcmul simple theta c)%Qc.

(** entry of the NON-stationary model's rate matrix: product of its rate
    parameters covering the cell (its reference cell is covered by none: 1) *)
Definition Q_nonstationary (rich : coords) (theta' : name -> Qc) (c : cell) : Qc :=
  rate qcmul rich theta' c.

(** the nested model's value seen by the projection; the pseudo parameter
    "ref_cell" (appended rule) has the value 1 *)
Definition theta_x (theta : name -> Qc) (s : name) : Qc :=
  if name_eqb s ref_cell then 1%Qc else theta s.

(** value of a rich parameter with coordinates [rc] after initialise_from_nested
    on a fresh function: pi_j * (value of the chosen simple parameter) / rho with j
    the target state of the parameter's (last) cell; 1 when nothing is assigned *)
Definition projected_ns (ex : bool) (pi : Z -> Qc) (rho : Qc) (rich simple : coords)
  (theta : name -> Qc) (rc : list cell) : Qc :=
  match pick_simple ex rich simple rc, last_col rc with
  | PChosen s, Some j => (pi j * theta_x theta s / rho)%Qc
  | _, _ => 1%Qc
  end.

Definition theta_ns (ex : bool) (pi : Z -> Qc) (rho : Qc) (rich simple : coords)
  (theta : name -> Qc) (rp : name) : Qc :=
  projected_ns ex pi rho rich simple theta (coords_of rp rich).

Definition is_chosen (p : pick) : bool := match p with PChosen _ => true | _ => false end.

(** a cell is covered by exactly one rich parameter, whose cells all lead to
    the cell's target state and which has a chosen simple counterpart — or by
    none, and then it is a reference cell of the rich model *)
Definition cell_ok_ns (ex : bool) (rich simple : coords) (c : cell) : bool :=
  match filter (covers c) rich with
  | [] => mem_cell c (coords_of ref_cell rich)
  | [p] => (match last_col (snd p) with Some j => j =? snd c | None => false end)
           && is_chosen (pick_simple ex rich simple (snd p))
  | _ => false
  end.

(** the nesting condition for stationary -> non-stationary *)
Definition nested_ok_ns (ex : bool) (rich simple : coords) : bool :=
  nested_ok ex rich simple && forallb (cell_ok_ns ex rich simple) (universe rich simple).

(** value the rules give the (globally scoped) parameter [n]; a fresh function has every rate parameter at 1 *)
Fixpoint lookup_qrule (n : name) (rs : list qrule) : option Qc :=
  match rs with
  | [] => None
  | r :: t => if name_eqb (q_par r) n then Some (q_val r) else lookup_qrule n t
  end.

Definition theta_from_q (rules : list qrule) (n : name) : Qc :=
  match lookup_qrule n rules with Some v => v | None => 1%Qc end.

