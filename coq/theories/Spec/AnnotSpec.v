(** C04 - specification on the plain objects: a parent string, a set of
    absolute plus-strand positions per feature, the segment of the parent a
    view displays.  Nothing here mentions start/stop/step of a view or the
    relative coordinates the code computes. *)
From CG3 Require Import Lib.PyZ Lib.PySlice Model.View Model.Annot.

(** the parent residue at absolute coordinate [x] (annotation offset [off]) *)
Definition residue (p : list Z) (off : Z) (x : Z) : list Z := zget p (x - off).

(** the absolute positions a span list denotes, ascending *)
Definition positions (spans : list (Z * Z)) : list Z :=
  flat_map (fun ab => py_range (fst ab) (snd ab) 1) spans.

(** the residues a feature denotes on the parent, restricted to the displayed
    absolute segment [lo, hi), read on the feature's strand *)
Definition in_seg (lo hi x : Z) : bool := (lo <=? x) && (x <? hi).

Definition denoted (p : list Z) (off lo hi : Z) (f : feat) : list Z :=
  let plus := flat_map (residue p off) (filter (in_seg lo hi) (positions (f_spans f))) in
  if f_minus f then cmpl (rev plus) else plus.

(** interval overlap / containment of the feature's bounding box and the window *)
Definition overlaps (fs fe qs qe : Z) : Prop := fs < qe /\ qs < fe.
Definition inside (fs fe qs qe : Z) : Prop := qs <= fs /\ fe <= qe.

(** sorted, disjoint, non-empty spans at non-negative coordinates *)
Fixpoint spans_ok (lo : Z) (l : list (Z * Z)) : Prop :=
  match l with
  | [] => True
  | (a, b) :: r => lo <= a /\ a < b /\ spans_ok b r
  end.

Definition feat_ok (f : feat) : Prop := f_spans f <> [] /\ spans_ok 0 (f_spans f).
