(** C18 — the score of a global alignment path written the way one reads an
    alignment: walking the path and the two sequences FORWARDS from BEGIN,
    adding the transition into each state and its emission, and the transition
    to END after the last column.  [Proofs/AlignFwdProofs.v] shows it is the
    same number as [AlignSpec.gscore] (which walks backwards, the direction the
    dynamic programme's invariant needs).  This is the form the plain-Python
    oracle of the check uses. *)
From CG3 Require Import Lib.PyZ Lib.Val Lib.MaxPlus Model.PairAlign Spec.AlignSpec.

Fixpoint fscore (P : params) (prev : st) (p : list st) (xs ys : list Z) : ez :=
  match p with
  | [] => match xs, ys with [], [] => te P prev | _, _ => None end
  | s :: p' =>
      match s with
      | SM => match xs, ys with
              | a :: xs', b :: ys' => eplus (eplus (tr P prev SM) (em P a b)) (fscore P SM p' xs' ys')
              | _, _ => None end
      | SX => match xs with
              | a :: xs' => eplus (eplus (tr P prev SX) (gx P a)) (fscore P SX p' xs' ys)
              | _ => None end
      | SY => match ys with
              | b :: ys' => eplus (eplus (tr P prev SY) (gy P b)) (fscore P SY p' xs ys')
              | _ => None end
      | SB => None
      end
  end.

(** score of the alignment spelled by two gapped rows *)
Definition score_of_rows (P : params) (r1 r2 xs ys : list Z) : ez :=
  fscore P SB (path_of_rows r1 r2) xs ys.
