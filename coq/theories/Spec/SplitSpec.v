(** C15 — tree metrics as weighted split systems (Buneman): the plain mathematical object behind
    "additive distance matrix of a binary tree with positive branch lengths".

    A tree on tips 0..L-1 is given by its edges; removing an edge splits the tips in two sides.
    A split is a boolean function on tips (which side) with the edge's positive weight;
    d(x, y) = sum of the weights of the splits separating x and y.  The splits of a tree are
    pairwise compatible (one of the four side intersections is empty); every tip has a pendant
    edge; the tree is binary iff the system is maximal (every proper split compatible with all
    of them already belongs to it). *)
From Coq Require Import QArith List Bool Arith ZArith.
From CG3 Require Import Model.NJ.
Import ListNotations.
Open Scope Q_scope.

Definition split : Type := ((nat -> bool) * Q)%type.
Definition sg (e : split) : nat -> bool := fst e.
Definition wt (e : split) : Q := snd e.

Definition sepb (s : nat -> bool) (x y : nat) : bool := negb (Bool.eqb (s x) (s y)).
Definition b2q (b : bool) : Q := if b then 1 else 0.
Definition qnat (n : nat) : Q := inject_Z (Z.of_nat n).

(** weighted sum over the splits *)
Definition wsum (E : list split) (f : split -> Q) : Q := qsum (map (fun e => wt e * f e) E).

(** [d] is the metric of the split system on tips < L *)
Definition rep (L : nat) (E : list split) (d : qmat) : Prop :=
  forall x y, (x < L)%nat -> (y < L)%nat -> d x y == wsum E (fun e => b2q (sepb (sg e) x y)).

(** number of tips < L satisfying p; size of the side of x *)
Definition cnt (L : nat) (p : nat -> bool) : nat := length (filter p (seq 0 L)).
Definition side (L : nat) (s : nat -> bool) (x : nat) : nat := cnt L (fun k => Bool.eqb (s k) (s x)).

Definition proper (L : nat) (s : nat -> bool) : Prop :=
  exists k k', (k < L)%nat /\ (k' < L)%nat /\ s k <> s k'.
Definition compat (L : nat) (s t : nat -> bool) : Prop :=
  exists a b : bool, forall k, (k < L)%nat -> ~ (s k = a /\ t k = b).
Definition same_split (L : nat) (s t : nat -> bool) : Prop :=
  (forall k, (k < L)%nat -> s k = t k) \/ (forall k, (k < L)%nat -> s k = negb (t k)).

Record split_sys (L : nat) (E : list split) : Prop := {
  ss_pos : forall e, In e E -> 0 < wt e;
  ss_proper : forall e, In e E -> proper L (sg e);
  ss_compat : forall e f, In e E -> In f E -> compat L (sg e) (sg f);
  ss_pend : forall k, (k < L)%nat -> exists e, In e E /\ side L (sg e) k = 1%nat;
  ss_max : forall t, proper L t -> (forall e, In e E -> compat L (sg e) t) ->
           exists e, In e E /\ same_split L (sg e) t }.

(** the matrices NJ is consistent on: metrics of binary trees with positive branch lengths *)
Definition binary_tree_metric (L : nat) (d : qmat) : Prop :=
  exists E, split_sys L E /\ rep L E d.

(** x and y are siblings: only their own pendant edges separate them *)
Definition is_cherry (L : nat) (E : list split) (x y : nat) : Prop :=
  forall e, In e E -> sg e x <> sg e y -> side L (sg e) x = 1%nat \/ side L (sg e) y = 1%nat.

(** ------------------------------------------------------------------ labelled binary trees with positive branch lengths, by construction

    Every leaf-labelled binary tree with >= 3 tips is obtained from the 3-star by repeatedly
    replacing a tip u by a cherry (every binary tree with >= 4 tips has a cherry; contract it and
    recurse) and relabelling the tips.  [tree_metric_gen n d]: d is the path-length metric of such a
    tree on tips 0..n-1. *)
Definition ptip (k : nat) : nat -> bool := fun x => Nat.eqb x k.

(** the 3-star with pendant lengths a, b, c *)
Definition star3_d (a b c : Q) : qmat :=
  fun x y => a * b2q (sepb (ptip 0) x y) + b * b2q (sepb (ptip 1) x y) + c * b2q (sepb (ptip 2) x y).

(** tip u of a tree on tips < L becomes an internal node carrying the cherry (u : a, L : b);
    the old pendant edge of u becomes the internal edge above the cherry *)
Definition pi_ (L u x : nat) : nat := if Nat.eqb x L then u else x.
Definition expand_d (L u : nat) (a b : Q) (d : qmat) : qmat :=
  fun x y => d (pi_ L u x) (pi_ L u y) + a * b2q (sepb (ptip u) x y) + b * b2q (sepb (ptip L) x y).

Inductive tree_metric_gen : nat -> qmat -> Prop :=
| tmg_star : forall a b c, 0 < a -> 0 < b -> 0 < c -> tree_metric_gen 3 (star3_d a b c)
| tmg_grow : forall L u a b d, (3 <= L)%nat -> (u < L)%nat -> 0 < a -> 0 < b ->
    tree_metric_gen L d -> tree_metric_gen (S L) (expand_d L u a b d)
| tmg_relabel : forall L (f g : nat -> nat) d,
    (forall k, (k < L)%nat -> (f k < L)%nat) -> (forall k, (k < L)%nat -> (g k < L)%nat) ->
    (forall k, (k < L)%nat -> g (f k) = k) -> (forall k, (k < L)%nat -> f (g k) = k) ->
    tree_metric_gen L d -> tree_metric_gen L (fun x y => d (f x) (f y))
| tmg_ext : forall L d d', (forall x y, (x < L)%nat -> (y < L)%nat -> d' x y == d x y) ->
    tree_metric_gen L d -> tree_metric_gen L d'.

(** ------------------------------------------------------------------ binary trees as a datatype

    A leaf-labelled binary tree with branch lengths, rooted on an edge: [BN l1 c1 l2 c2] is an
    internal node with two subtrees hanging on edges of length l1, l2.  Read as an UNROOTED tree
    the two root edges form one edge of length l1 + l2.  Its path metric: the sum of the lengths
    of the edges separating x from y (an edge separates x, y iff exactly one of them is below it). *)
Inductive btree : Type :=
| BT (k : nat)
| BN (l1 : Q) (c1 : btree) (l2 : Q) (c2 : btree).

Fixpoint tips (c : btree) : list nat :=
  match c with BT k => [k] | BN _ c1 _ c2 => tips c1 ++ tips c2 end.

(** every edge with the subtree below it *)
Fixpoint subs (c : btree) : list (Q * btree) :=
  match c with
  | BT _ => []
  | BN l1 c1 l2 c2 => (l1, c1) :: (l2, c2) :: subs c1 ++ subs c2
  end.

Definition inN (c : btree) : nat -> bool := fun x => existsb (Nat.eqb x) (tips c).
Definition bedges (c : btree) : list split := map (fun lc => (inN (snd lc), fst lc)) (subs c).
Definition bt_metric (c : btree) : qmat := fun x y => wsum (bedges c) (fun e => b2q (sepb (sg e) x y)).

Fixpoint bpos (c : btree) : Prop :=
  match c with BT _ => True | BN l1 c1 l2 c2 => 0 < l1 /\ 0 < l2 /\ bpos c1 /\ bpos c2 end.
