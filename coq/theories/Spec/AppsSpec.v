(** Specification for C14, stated on the plain mathematical objects:

    * a composed app is the left-to-right evaluation of its stages, where a
      not-completed value passes through every remaining stage unchanged
      ([forward]);
    * the final store of apply_to is a dictionary: one record per input
      identifier, holding the value of the composed function on that input,
      filed as completed or as not-completed ([final_done], [final_nc]) —
      a function of the SET of results, not of their order.

    Independent of Model/Apps.v's [call] (which recurses from the last app
    through the `input` links) and of the fold over completion order. *)
From CG3 Require Import Lib.PyZ Lib.Val Model.Apps.
From Coq Require Import Permutation.

(** one stage applied to a value it does not skip: type check, then main
    with exception capture and None check *)
Definition stage_apply (s : step) (v : value) : value :=
  match validate s v with
  | Some falsy => falsy
  | None => run_main s v
  end.

(** left-to-right pipeline; [stages] in composition order a + b + c = [a; b; c] *)
Fixpoint forward (stages : list step) (v : value) : value :=
  match stages with
  | [] => v
  | s :: r => forward r (if is_nc v && s_skip s then v else stage_apply s v)
  end.

Definition all_skip (stages : list step) : Prop := forall s, In s stages -> s_skip s = true.

(** a record: identifier and the value the composed function produced for it *)
Definition rec := (str * value)%type.

Definition completed_rec (r : rec) : bool := negb (is_nc (snd r)).
Definition failed_rec (r : rec) : bool := is_nc (snd r).

(** the dictionary apply_to must leave behind, given the store before and the
    set of (identifier, result) pairs: completed records are added, failed
    ones are added as not-completed, an older not-completed record is retired
    exactly when its input now completed *)
Definition final_done (K : skind) (st : store) (rs : list rec) : list (str * (str * value)) :=
  st_done st ++ map (fun r => (k_fname K (fst r), r)) (filter completed_rec rs).

Definition retired_by (K : skind) (rs : list rec) (e : str * value) : bool :=
  existsb (fun r => completed_rec r && k_retire K (fst e) (fst r)) rs.

Definition final_nc (K : skind) (st : store) (rs : list rec) : list (str * value) :=
  filter (fun e => negb (retired_by K rs e)) (st_nc st)
  ++ map (fun r => (k_ncname K (fst r), snd r)) (filter failed_rec rs).

(** identifiers on which a store kind behaves like a dictionary *)
Record good_kind (K : skind) (U : list str) : Prop := {
  g_item_fname : forall a, In a U -> k_item K a = k_fname K a;
  g_item_idem : forall a, In a U -> k_item K (k_fname K a) = k_fname K a;
  g_item_nc : forall a, In a U -> k_item K (k_ncname K a) = k_fname K a;
  g_fname_inj : forall a b, In a U -> In b U -> k_fname K a = k_fname K b -> a = b;
  g_ncname_inj : forall a b, In a U -> In b U -> k_ncname K a = k_ncname K b -> a = b;
  g_retire : forall a b, In a U -> In b U -> k_retire K (k_ncname K a) b = str_eqb a b;
  g_nonempty : forall a, In a U -> a <> [] }.

(** the same, decidable on a concrete list (used for non-vacuity examples and by the driver) *)
Definition good_kind_b (K : skind) (U : list str) : bool :=
  forallb (fun a =>
    str_eqb (k_item K a) (k_fname K a) && str_eqb (k_item K (k_fname K a)) (k_fname K a)
    && str_eqb (k_item K (k_ncname K a)) (k_fname K a) && negb (is_empty a)
    && forallb (fun b =>
         (negb (str_eqb (k_fname K a) (k_fname K b)) || str_eqb a b)
         && (negb (str_eqb (k_ncname K a) (k_ncname K b)) || str_eqb a b)
         && Bool.eqb (k_retire K (k_ncname K a) b) (str_eqb a b)) U) U.

(** writing a list of (identifier, result) records in the given order *)
Definition put (K : skind) (st : store) (r : rec) : result store :=
  writer_main K st (snd r) (Some (fst r)).

Fixpoint puts (K : skind) (st : store) (rs : list rec) : result store :=
  match rs with
  | [] => Ok st
  | r :: rs' => match put K st r with Ok st' => puts K st' rs' | Exc e => Exc e end
  end.

(** what is needed of the store and of the records before they are written:
    the store is writable, identifiers are unique, inside [U], and none of
    them is completed yet (apply_to skips those) *)
Definition ready (K : skind) (U : list str) (st : store) (rs : list rec) : Prop :=
  st_mode st <> 0 /\ NoDup (map fst rs) /\ incl (map fst rs) U /\
  (forall a, In a (map fst rs) -> ~ In (k_fname K a) (done_names st)).

(** the element of the work list apply_to builds for an input *)
Definition item_of (m : value) : item := if has_source_attr m then Bare m else Wrapped m m.

(** an input apply_to can account for: it is truthy and the result it leads
    to still names the input's identifier (always true for inputs that are
    wrapped in a source_proxy, e.g. every non-empty str) *)
Definition plain_input (chain : list step) (m : value) : Prop :=
  truthy m = true /\ result_id (source_wrapped chain (item_of m)) = unique_id_of (source_of m).

(** the records apply_to has to write: the inputs not yet completed, each with
    the value of the composed function on it *)
Definition todo_of (K : skind) (st : store) (ids : list str) (inputs : list value) : list (str * value) :=
  filter (fun p => negb (contains K st (fst p))) (combine ids inputs).

Definition records_of (chain : list step) (todo : list (str * value)) : list rec :=
  map (fun p => (fst p, call chain (snd p))) todo.

(* ------------------------------------------------------------------ the repaired code *)

(** writing records through the repaired writer/store operations *)
Definition put_r (K : skind) (st : store) (r : rec) : result store :=
  writer_main_v repaired K st (snd r) (Some (fst r)).

Fixpoint puts_r (K : skind) (st : store) (rs : list rec) : result store :=
  match rs with
  | [] => Ok st
  | r :: rs' => match put_r K st r with Ok st' => puts_r K st' rs' | Exc e => Exc e end
  end.

(** the not-completed part of the dictionary for the repaired store: an older
    record is retired when its input now completed, REPLACED (not listed a
    second time) when its input failed again, and a failed input without an
    older record is added *)
Definition failed_named (K : skind) (n : str) (r : rec) : bool :=
  failed_rec r && str_eqb (k_ncname K (fst r)) n.

Definition refreshed (K : skind) (rs : list rec) (e : str * value) : str * value :=
  match find (failed_named K (fst e)) rs with
  | Some r => (fst e, snd r)
  | None => e
  end.

Definition newly_failed (K : skind) (st : store) (r : rec) : bool :=
  failed_rec r && negb (mem_str (k_ncname K (fst r)) (map fst (st_nc st))).

Definition final_nc_r (K : skind) (st : store) (rs : list rec) : list (str * value) :=
  map (refreshed K rs) (filter (fun e => negb (retired_by K rs e)) (st_nc st))
  ++ map (fun r => (k_ncname K (fst r), snd r)) (filter (newly_failed K st) rs).
