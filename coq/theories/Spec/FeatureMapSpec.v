(** C08 — what a feature map means: the parent position read at each map
    position ([None] where the map is lost), and the set-theoretic readings of
    its algebra.  Independent of the operations of Model/FeatureMap.v (only
    the span / map record types are mentioned). *)
From CG3 Require Import Lib.PyZ Model.FeatureMap.

Definition den_span (sp : fspan) : list (option Z) :=
  match sp with
  | FL n => repeat None (Z.to_nat n)
  | FS s e r => let l := map Some (zrange s e) in if r then rev l else l
  end.

(** denotation: map position -> parent position *)
Definition den (fm : fmap) : list (option Z) := flat_map den_span (fspans fm).

Fixpoint ins (x : Z) (l : list Z) : list Z :=
  match l with
  | [] => [x]
  | y :: t => if x <? y then x :: l else if x =? y then l else y :: ins x t
  end.

(** the set of parent positions a map covers, ascending *)
Definition positions (fm : fmap) : list Z :=
  fold_right (fun o acc => match o with Some p => ins p acc | None => acc end) [] (den fm).

Definition mem (x : Z) (l : list Z) : bool := existsb (Z.eqb x) l.

(** [0, n) minus a set *)
Definition complement (n : Z) (l : list Z) : list Z := filter (fun p => negb (mem p l)) (zrange 0 n).

(** composition: cell [j] of [fm[sub]] reads what [fm] reads at the cell [sub] reads at [j] *)
Definition compose (d_fm d_sub : list (option Z)) : list (option Z) :=
  map (fun o => match o with
                | None => None
                | Some q => if (0 <=? q) && (q <? zlen d_fm) then znth None d_fm q else None
                end) d_sub.

(** inverse function: parent position -> the map position that reads it *)
Fixpoint index_of (p : Z) (i : Z) (d : list (option Z)) : option Z :=
  match d with
  | [] => None
  | Some q :: t => if q =? p then Some i else index_of p (i + 1) t
  | None :: t => index_of p (i + 1) t
  end.
Definition inverse_den (plen : Z) (d : list (option Z)) : list (option Z) :=
  map (fun p => index_of p 0 d) (zrange 0 plen).

(** no parent position is read twice *)
Fixpoint nodup_pos (d : list (option Z)) : bool :=
  match d with
  | [] => true
  | None :: t => nodup_pos t
  | Some p :: t => negb (existsb (fun o => match o with Some q => q =? p | None => false end) t) && nodup_pos t
  end.

(** every coordinate of every span lies inside the parent *)
Definition span_in (plen : Z) (sp : fspan) : bool :=
  match sp with FL n => 0 <=? n | FS s e _ => (0 <=? s) && (s <=? e) && (e <=? plen) end.
Definition in_parent (fm : fmap) : bool := forallb (span_in (fplen fm)) (fspans fm).

(** forward spans, ascending, pairwise separated by at least one position *)
Fixpoint separated (prev : Z) (l : list fspan) : bool :=
  match l with
  | [] => true
  | FS s e false :: t => (prev <? s) && (s <? e) && separated e t
  | _ :: _ => false
  end.

(** the real spans, ordered by start, do not overlap (the documented
    precondition of [inverse] / [shadow]) *)
Fixpoint ins_pair (x : Z * Z) (l : list (Z * Z)) : list (Z * Z) :=
  match l with
  | [] => [x]
  | y :: t => if (fst x <? fst y) || ((fst x =? fst y) && (snd x <=? snd y)) then x :: l else y :: ins_pair x t
  end.
Fixpoint chain_ok (l : list (Z * Z)) : bool :=
  match l with
  | (_, e) :: (((s, _) :: _) as t) => (e <=? s) && chain_ok t
  | _ => true
  end.
Definition disjoint_spans (fm : fmap) : bool :=
  chain_ok (fold_right ins_pair []
              (flat_map (fun sp => match sp with FS s e _ => [(s, e)] | FL _ => [] end) (fspans fm))).
