(** C01 - specification on the plain string.

    The same operations the model applies to views, interpreted directly on
    the plain list of characters with Python's own slice semantics
    (Lib/PySlice.v): nothing here mentions start/stop/step of a view.
    The vocabulary shared with the model ([op], [kind], the complement table
    [comp], [t2u]/[u2t]) is imported from Model/View.v as data. *)
From CG3 Require Import Lib.PyZ Lib.PySlice Model.View.

(** * well-formedness of a view (the invariant of the theorems) *)

(** forward views address [start, stop) inside [0, seq_len]; reverse views use
    negative indices: [stop <= start <= -1], [stop >= -seq_len-1] *)
Definition WF (v : view) : Prop :=
  0 <= seq_len v /\
  ((0 < step v /\ 0 <= start v <= stop v /\ stop v <= seq_len v) \/
   (step v < 0 /\ - seq_len v - 1 <= stop v <= start v /\ start v <= -1)).

(** the parent string the view is read from has the recorded length (an empty
    view may have lost its parent: the [SeqView] zero slice is [SeqView(seq="")]) *)
Definition Fits {A} (v : view) (p : list A) : Prop := vlen v = 0 \/ zlen p = seq_len v.

Definition SWF (s : pseq) : Prop := WF (sv s) /\ Fits (sv s) (parent s).

(** * the plain-string interpretation of an operation chain *)

Definition plain := (list Z * kind)%type.

Definition nucleic (k : kind) : bool := match k with KOther => false | _ => true end.

(** [None]: Python raises (IndexError, AttributeError/TypeError); the state is unchanged *)
Definition spec_op (s : plain) (o : op) : option plain :=
  let '(str, k) := s in
  match o with
  | Slice a b c =>
      let c := match c with None => 1 | Some x => x end in
      let r := py_slice str a b c in
      Some (if c <? 0 then map (comp k) r else r, k)       (* a negative step also complements *)
  | Index i =>
      match py_getitem str i with Some x => Some ([x], k) | None => None end
  | Rc => if nucleic k then Some (map (comp k) (rev str), k) else None
  | ToRna => match k with
             | KDna => Some (map t2u str, KRna)             (* only T -> U *)
             | KRna => Some (str, KRna)
             | KOther => None
             end
  | ToDna => match k with
             | KRna => Some (map u2t str, KDna)             (* only U -> T *)
             | KDna => Some (str, KDna)
             | KOther => None
             end
  | CopySliced => Some (str, k)
  end.

Definition spec_keep (s : plain) (o : op) : plain :=
  match spec_op s o with Some s' => s' | None => s end.

Definition run_spec (ops : list op) (s : plain) : plain := fold_left spec_keep ops s.

(** slices with a step of 0 are outside the property (Python raises ValueError) *)
Definition op_ok (o : op) : Prop :=
  match o with Slice _ _ (Some 0) => False | _ => True end.

(** the operations for which each implementation is claimed to follow the
    plain-string interpretation (see the [_refuted] theorems for the rest) *)
Definition op_ok_new (o : op) : Prop := op_ok o /\ o <> CopySliced.
Definition op_ok_old (o : op) : Prop := op_ok o /\ o <> ToRna /\ o <> ToDna.

(** * the parent segment a view reports *)

(** plus-strand segment [lo, hi) of the parent *)
Definition seg {A} (p : list A) (lo hi : Z) : list A := py_slice p (Some lo) (Some hi) 1.

(** read a segment with the view's stride and orientation: [seg[::step]] *)
Definition strided {A} (l : list A) (step : Z) : list A := py_slice l None None step.

(** the operations for which an implementation variant is claimed to follow
    the plain-string interpretation *)
Definition op_ok_for (i : impl) (o : op) : Prop :=
  match i with OldStyle => op_ok_old o | NewStyle => op_ok_new o | Fixed => op_ok o end.
