(** C16 — specification vocabulary, stated on the plain objects the property
    names: a function from points to (extended) values, a start point, a list
    of evaluated points, a returned point. Independent of the wrapper's
    state machine (only the value type [fv] and the comparison [fgt], Python's
    float [>], are shared with the model). *)
From CG3 Require Import Lib.PyZ Model.Optim.

(** [v] is not lower than the finite value [v0] *)
Definition at_least (v : fv) (v0 : Z) : Prop := v = PInf \/ exists z, v = Fin z /\ v0 <= z.

(** [v] is not higher than the finite value [v0] (for minimise) *)
Definition at_most (v : fv) (v0 : Z) : Prop := v = NInf \/ exists z, v = Fin z /\ z <= v0.

(** [bx] maximises [f] over [pts]: it is one of them and no point of [pts] has a
    strictly larger value (NaN / failed evaluations are larger than nothing) *)
Definition is_argmax (f : point -> fv) (pts : list point) (bx : point) : Prop :=
  In bx pts /\ forall q, In q pts -> fgt (f q) (f bx) = false.

(** likelihood ratio statistic 2*(lnL_alt - lnL_null) on finite values *)
Definition LR (lnl_alt lnl_null : Z) : Z := 2 * (lnl_alt - lnl_null).
