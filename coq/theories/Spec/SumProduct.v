(** C02 — the first-principles specification: Felsenstein's likelihood of one
    alignment column written as the brute-force sum over all assignments of a
    state to every node of the tree,

        L = Σ_{assignments compatible with the leaf sets}
              π(state of root) · Π_{edges e = (parent, child)} P_e[state parent][state child]

    Nothing here mentions pruning, partial likelihoods or column compression.
    Matrices and vectors are plain functions of state indices [0 .. n-1]. *)
From Coq Require Import List Arith Bool.
From CG3 Require Import Lib.Semiring Lib.LikTree.
Import ListNotations.

Set Implicit Arguments.

(** an assignment of states below a node whose own state is given from above:
    for every child the state of the child and the assignment below it *)
Inductive stree : Type :=
| SLeaf
| SNode (ch : list (nat * stree)).

Section Assign.
  Variables L E : Type.
  Variable n : nat.                      (* number of states *)

  (** all assignments of states [0..n-1] to the nodes strictly below the root of [t] *)
  Fixpoint assignments (t : tree L E) : list stree :=
    match t with
    | Leaf _ => [SLeaf]
    | Node ch =>
        map SNode
          ((fix go (l : list (E * tree L E)) : list (list (nat * stree)) :=
              match l with
              | [] => [[]]
              | ec :: l' =>
                  flat_map (fun j =>
                    flat_map (fun s => map (fun rest => (j, s) :: rest) (go l')) (assignments (snd ec)))
                    (seq 0 n)
              end) ch)
    end.

  (** all ways of writing one state [0..n-1] at every leaf of [t] (= all
      possible alignment columns over unambiguous symbols) *)
  Fixpoint labelings (t : tree L E) : list (tree nat E) :=
    match t with
    | Leaf _ => map (fun s => Leaf s) (seq 0 n)
    | Node ch =>
        map (fun l => Node l)
          ((fix go (l : list (E * tree L E)) : list (list (E * tree nat E)) :=
              match l with
              | [] => [[]]
              | ec :: l' =>
                  flat_map (fun c' => map (fun rest => (fst ec, c') :: rest) (go l')) (labelings (snd ec))
              end) ch)
    end.

  (** assignments to all nodes including the root *)
  Definition full_assignments (t : tree L E) : list (nat * stree) :=
    flat_map (fun i => map (fun s => (i, s)) (assignments t)) (seq 0 n).
End Assign.

Notation ftree R := (tree (nat -> R) (nat -> nat -> R)) (only parsing).
Notation settree R := (tree (nat -> bool) (nat -> nat -> R)) (only parsing).

Section Spec.
  Variable R : Type.
  Variable o : sr_ops R.
  Local Notation add := (sr_add o).
  Local Notation mul := (sr_mul o).
  Local Notation zero := (sr_zero o).
  Local Notation one := (sr_one o).
  Variable n : nat.

  (* -------- general leaf weights (a leaf contributes [w(state)]) -------- *)

  Local Notation ftree := (tree (nat -> R) (nat -> nat -> R)).

  (** product over the edges of P_e[parent][child], times the leaf weights *)
  Fixpoint weight (t : ftree) (i : nat) (s : stree) : R :=
    match t, s with
    | Leaf w, SLeaf => w i
    | Node ch, SNode sch =>
        (fix go (l : list ((nat -> nat -> R) * ftree)) (sl : list (nat * stree)) : R :=
           match l, sl with
           | [], [] => one
           | ec :: l', (j, s') :: sl' => mul (mul (fst ec i j) (weight (snd ec) j s')) (go l' sl')
           | _, _ => zero
           end) ch sch
    | _, _ => zero
    end.

  (** Σ over the assignments below a root in state [i] *)
  Definition brute (t : ftree) (i : nat) : R := big_sum o (weight t i) (assignments n t).

  (** the likelihood of the column: Σ_i π_i · Σ_assignments Π ... *)
  Definition brute_lik (t : ftree) (pi : nat -> R) : R :=
    big_sum o (fun i => mul (pi i) (brute t i)) (seq 0 n).

  (* -------- leaf *sets* (the property's wording) -------- *)

  (** leaves carry the set of states compatible with the observed symbol *)
  Local Notation settree := (tree (nat -> bool) (nat -> nat -> R)).

  (** does the assignment give every leaf a state of its set? *)
  Fixpoint compatible (t : settree) (i : nat) (s : stree) : bool :=
    match t, s with
    | Leaf set, SLeaf => set i
    | Node ch, SNode sch =>
        (fix go (l : list ((nat -> nat -> R) * settree)) (sl : list (nat * stree)) : bool :=
           match l, sl with
           | [], [] => true
           | ec :: l', (j, s') :: sl' => compatible (snd ec) j s' && go l' sl'
           | _, _ => false
           end) ch sch
    | _, _ => false
    end.

  (** Π_{edges} P_e[parent][child] *)
  Fixpoint edge_product (t : settree) (i : nat) (s : stree) : R :=
    match t, s with
    | Leaf _, SLeaf => one
    | Node ch, SNode sch =>
        (fix go (l : list ((nat -> nat -> R) * settree)) (sl : list (nat * stree)) : R :=
           match l, sl with
           | [], [] => one
           | ec :: l', (j, s') :: sl' => mul (mul (fst ec i j) (edge_product (snd ec) j s')) (go l' sl')
           | _, _ => zero
           end) ch sch
    | _, _ => zero
    end.

  (** the specification in the property's words *)
  Definition sum_product (t : settree) (pi : nat -> R) : R :=
    big_sum o (fun a => mul (pi (fst a)) (edge_product t (fst a) (snd a)))
      (filter (fun a => compatible t (fst a) (snd a)) (full_assignments n t)).

  (** indicator function of a set, as leaf weight *)
  Definition indicator (set : nat -> bool) (i : nat) : R := if set i then one else zero.

  (** leaf weight of an unambiguous symbol: state [s] observed *)
  Definition point (s : nat) (i : nat) : R := if Nat.eqb i s then one else zero.
End Spec.

(** functional views of the list-based vectors and matrices of the model *)
Section Views.
  Variable R : Type.
  Variable o : sr_ops R.
  Definition vfun (v : list R) (i : nat) : R := nth i v (sr_zero o).
  Definition mfun (P : list (list R)) (i j : nat) : R := nth j (nth i P []) (sr_zero o).
  Definition fview (t : tree (list R) (list (list R))) : tree (nat -> R) (nat -> nat -> R) :=
    tmap vfun mfun t.
End Views.
