(** C10 - specification side: what "observationally equal" means for the
    modelled serialisable objects.  Nothing here mentions a dictionary, an
    encoder or a decoder: an observation is what a user can read off the
    object (its string, its length, the plus-strand parent coordinates and
    strand it reports, name, moltype, info, the gap mask of an aligned row). *)
From CG3 Require Import Lib.PyZ Lib.PySlice Model.View Spec.ViewSpec Model.Serial.
From CG3 Require Model.IndelMap Spec.IndelMapSpec.
From CG3 Require Lib.Rose Model.Tree Proofs.NewickMoreProofs.
From CG3 Require Model.FeatureMap Model.AnnotDb Spec.AnnotDbSpec Proofs.AnnotDbProofs.

(** strand as [parent_coordinates()] reports it; an empty sequence has no
    residue on either strand, so the strand of an empty view is not observed
    (both implementations normalise an empty reversed view to a forward one
    when the sequence is re-constructed) *)
Definition obs_strand (v : view) : Z :=
  if vlen v =? 0 then 0 else if is_reversed v then -1 else 1.

(** [str(seq)], [len(seq)], [parent_coordinates()] (start, stop, strand), moltype *)
Definition observe_core (c : pseq) : list Z * Z * (Z * Z * Z) * kind :=
  (realise c, vlen (sv c), (parent_start (sv c), parent_stop (sv c), obs_strand (sv c)), skind c).

Definition observe_seq (s : seqobj) : (list Z * Z * (Z * Z * Z) * kind) * option (list Z) * dict :=
  (observe_core (s_core s), s_name s, s_info s).

(** a bare view: the displayed string, length, strand and the LENGTH of the plus-strand
    segment it covers.  Where that segment lies on the parent is not part of this observation:
    [SeqView.to_rich_dict] re-bases the view at 0 and writes no offset, the position is handed
    over by the enclosing sequence as [annotation_offset] (see [seqview_position_refuted]) *)
Definition observe_view (v : view) (p : list Z) : list Z * Z * Z * Z :=
  (value v p, vlen v, parent_stop v - parent_start v, obs_strand v).

(** the gapped string of an aligned row: residues of [s] laid out on the gap mask
    ([true] = next residue, [false] = the gap character 45) *)
Fixpoint gapped (mask : list bool) (s : list Z) : list Z :=
  match mask with
  | [] => []
  | true :: m' => match s with x :: s' => x :: gapped m' s' | [] => gapped m' [] end
  | false :: m' => 45 :: gapped m' s
  end.

(** [str(aligned)], the map fields, and everything observable of the ungapped sequence *)
Definition observe_aligned (a : aligned) :=
  (gapped (IndelMapSpec.abs (a_map a)) (realise (s_core (a_seq a))), a_map a, observe_seq (a_seq a)).

(** the states of a sequence the theorems quantify over: whatever a chain of
    slice / index / rc / to_rna / to_dna / copy operations of any depth leaves
    behind, starting from [make_seq(p, moltype=k, annotation_offset=off)] *)
Definition impl_of (st : style) : impl := match st with SOld => OldStyle | SNew => NewStyle end.

Definition reachable_core (st : style) (c : pseq) : Prop :=
  exists k p off s0 ops, init_seq k p off = Ok s0 /\ c = run_ops (impl_of st) s0 ops /\
    Forall (fun x => coerce_char k x = x) p.

(** a sequence string is already in its moltype's spelling (what [make_seq] produces:
    [coerce_str] turns U into T for DNA and T into U for RNA at construction) *)
Definition clean (k : kind) (p : list Z) : Prop := Forall (fun x => coerce_char k x = x) p.

(** what is observed of a table: index, attributes, and per column name and cells.  The numpy dtype string is
    book-keeping; it is observed separately ([table_dtypes]) because the code does not keep it for text columns *)
Definition observe_table (t : table) : option (list Z) * dict * list (list Z * list json) :=
  (t_index t, t_attrs t, map (fun c => (c_name c, c_values c)) (t_cols t)).

Definition table_dtypes (t : table) : list (list Z) := map c_dtype (t_cols t).

(** no text column: every dtype string reads back as itself *)
Definition dtypes_stable (t : table) : bool := forallb (fun c => zeqb (redtype (c_dtype c)) (c_dtype c)) (t_cols t).

(** observation of any modelled object *)
Inductive observation :=
| ObsView (o : list Z * Z * Z * Z)
| ObsSeq (st : style) (o : (list Z * Z * (Z * Z * Z) * kind) * option (list Z) * dict)
| ObsImap (m : IndelMap.imap) (mask : list bool)
| ObsAligned (o : list Z * IndelMap.imap * ((list Z * Z * (Z * Z * Z) * kind) * option (list Z) * dict))
| ObsAlignment (k : kind) (info : dict) (rows : list (list Z * IndelMap.imap * ((list Z * Z * (Z * Z * Z) * kind) * option (list Z) * dict)))
(* for the field-copying serialisers everything the model keeps is observed: topology, names and lengths of a
   tree; index, attributes, column order, names and cells of a table; names and array of a dict array;
   constructor arguments of a NotCompleted *)
| ObsTree (t : Rose.tree)
| ObsTable (o : option (list Z) * dict * list (list Z * list json))
| ObsDarr (a : darr)
| ObsNC (n : notcompleted)
| ObsDmat (m : dmat)
| ObsProfile (c : profile_class) (a : darr)          (* the class of a profile array is observed: it decides the methods on offer *)
| ObsFmap (m : FeatureMap.fmap)
(* an annotation db is observed through its records, table by table in insertion order (what
   get_features_matching / get_records_matching list) *)
| ObsDb (rows : list AnnotDb.row)
| ObsSeqDb (o : (list Z * Z * (Z * Z * Z) * kind) * option (list Z) * dict) (rows : list AnnotDb.row)
| ObsMolType (label : list Z)
| ObsAlphabet (a : alphabet)
| ObsAlignmentDb (k : kind) (info : dict) (rows : list (list Z * IndelMap.imap * ((list Z * Z * (Z * Z * Z) * kind) * option (list Z) * dict)))
                 (db : list AnnotDb.row).

Definition observe (x : obj) : observation :=
  match x with
  | OView v p _ => ObsView (observe_view v p)
  | OSeq st s => ObsSeq st (observe_seq s)
  | OImap m => ObsImap m (IndelMapSpec.abs m)
  | OAligned a => ObsAligned (observe_aligned a)
  | OAlignment k inf rows => ObsAlignment k inf (map observe_aligned rows)
  | OTree t => ObsTree t
  | OTable t => ObsTable (observe_table t)
  | ODarr a => ObsDarr a
  | ONotCompleted n => ObsNC n
  | ODmat m => ObsDmat m
  | OProfile c a => ObsProfile c a
  | OFmap m => ObsFmap m
  | ODb tables rows => ObsDb (AnnotDbSpec.records_in_tables tables rows)
  | OSeqDb s tables rows => ObsSeqDb (observe_seq s) (AnnotDbSpec.records_in_tables tables rows)
  | OMolType l => ObsMolType l
  | OAlphabet a => ObsAlphabet a
  | OAlignmentDb k inf rows tables db => ObsAlignmentDb k inf (map observe_aligned rows) (AnnotDbSpec.records_in_tables tables db)
  end.

(** the objects the round-trip theorem covers: well-formed views that fit their parent,
    strings in their moltype's spelling, well-formed gap maps *)
Definition seq_ok (s : seqobj) : Prop := SWF (s_core s) /\ clean (skind (s_core s)) (parent (s_core s)).
Definition aligned_ok (a : aligned) : Prop := IndelMapSpec.WF (a_map a) /\ seq_ok (a_seq a).

(** tables as [Columns] keeps them: names stripped and pairwise distinct, cells scalars, one common
    number of rows; the index column (if any) exists and holds unique values *)
Fixpoint cols_okb (cs : list column) (n : Z) (seen : list (list Z)) : bool :=
  match cs with
  | [] => true
  | c :: r => stripped (c_name c) && negb (mem_str (c_name c) seen) && forallb is_scalar (c_values c)
              && (zlen (c_values c) =? n) && cols_okb r n (c_name c :: seen)
  end.

Definition nrows_of (cs : list column) : Z := match cs with c :: _ => zlen (c_values c) | [] => 0 end.

Definition table_okb (t : table) : bool :=
  cols_okb (t_cols t) (nrows_of (t_cols t)) []
  && match check_index (t_index t) (t_cols t) with Ok _ => true | Err _ => false end.

(** a dict array whose array is as long in every dimension as that dimension has names *)
Definition darr_okb (a : darr) : bool := check_shape (d_names a) (d_array a) 0.

(** what the constructor accepts: three positional arguments, at most the keyword "source" *)
Definition nc_okb (n : notcompleted) : bool :=
  (zlen (nc_args n) =? 3) && forallb (fun kv => zeqb (fst kv) k_source) (nc_kwargs n).

(** a span as [Span.__init__] leaves it: start <= end *)
Definition span_okb (sp : FeatureMap.fspan) : bool :=
  match sp with FeatureMap.FS s e _ => s <=? e | FeatureMap.FL _ => true end.

(** the two tables of the model (0: the class' own, 1: user); every record is filed in one of them *)
Definition db_ok (tables : list Z) (rows : list AnnotDb.row) : Prop :=
  tables = [0; 1] /\ AnnotDbProofs.tables_ok [0; 1] rows.

(** distance matrices as the library makes them: strictly sorted names, a square array, 0.0 on the diagonal *)
Fixpoint strictly_sorted (l : list (list Z)) : bool :=
  match l with
  | a :: ((b :: _) as r) => str_ltb a b && strictly_sorted r
  | _ => true
  end.

Definition dmat_okb (m : dmat) : bool :=
  strictly_sorted (dm_names m) && (2 <=? zlen (dm_names m)) && (zlen (dm_rows m) =? zlen (dm_names m))
  && forallb (fun r => zlen r =? zlen (dm_names m)) (dm_rows m)
  && forallb (fun ir => match nth_error (snd ir) (fst ir) with Some (JFloat f) => zeqb f float_zero | _ => false end)
             (combine (seq 0 (length (dm_rows m))) (dm_rows m)).

Definition obj_ok (x : obj) : Prop :=
  match x with
  | OView v p _ => WF v /\ Fits v p
  | OSeq _ s => seq_ok s
  | OImap m => IndelMapSpec.WF m
  | OAligned a => aligned_ok a
  | OAlignment _ _ rows => Forall aligned_ok rows
  | OTree t => NewickMoreProofs.rt_ok_json t = true          (* the name guard of C09 *)
  | OTable t => table_okb t = true
  | ODarr a => darr_okb a = true
  | ONotCompleted n => nc_okb n = true
  | ODmat _ => False                  (* see [dmat_roundtrip_small] / [stmt_dmat_roundtrip]: no general theorem *)
  | OProfile _ _ => False             (* refuted: [profile_class_refuted] *)
  | OFmap m => forallb span_okb (FeatureMap.fspans m) = true
  | ODb tables rows => db_ok tables rows
  | OSeqDb s tables rows => seq_ok s /\ db_ok tables rows /\ rows <> []
  | OMolType l => mem_str l moltype_labels = true
  | OAlphabet a => mem_str (al_label a) moltype_labels = true
  | OAlignmentDb _ _ rows tables db => Forall aligned_ok rows /\ db_ok tables db /\ db <> []
  end.
