(** C03 — specification side: an alignment IS its list of named gapped strings
    and every operation of the property is the plain string operation of the
    same name (Python slice semantics from Lib/PySlice.v).  Nothing here
    mentions an indel map or a sequence view; only the vocabulary of the
    operations ([aop], [pred]), the result type [res] and the complement
    table [comp] are shared with the models as data.

    Characters are code points; the gap character is ['-'] = 45. *)
From CG3 Require Import Lib.PyZ Lib.Val Lib.PySlice Model.View Model.IndelMap Model.Aligned.

(** ** the row: gap mask + residues <-> gapped string *)

(** put the residues [d] into the [true] cells of the mask [k], ['-'] into the others *)
Fixpoint fill (k : list bool) (d : list Z) : list Z :=
  match k with
  | [] => []
  | true :: k' => match d with x :: d' => x :: fill k' d' | [] => [] end
  | false :: k' => GAPC :: fill k' d
  end.

Definition salign := list (name * list Z).   (* association list name -> gapped string, in order *)

Definition srows (a : salign) : list (list Z) := map snd a.
Definition map_rows (f : list Z -> list Z) (a : salign) : salign := map (fun nr => (fst nr, f (snd nr))) a.

(** common length of the rows (0 for no rows) *)
Definition slen (a : salign) : Z := match a with [] => 0 | (_, s) :: _ => zlen s end.

Definition all_len (n : Z) (a : salign) : Prop := Forall (fun nr => zlen (snd nr) = n) a.

(** rows of an alignment have equal length *)
Definition rect (a : salign) : Prop := all_len (slen a) a.

(** [s[x:y]] for [0 <= x <= y] *)
Definition ssub (s : list Z) (x y : Z) : list Z := firstn (Z.to_nat (y - x)) (skipn (Z.to_nat x) s).

(** reverse complement of a gapped string ([comp] leaves ['-'] alone) *)
Definition rc_str (k : kind) (s : list Z) : list Z := map (comp k) (rev s).

(** characters at the listed columns *)
Definition take_cols (cols : list Z) (s : list Z) : list Z := flat_map (fun i => ssub s i (i + 1)) cols.
(** all columns except the listed ones *)
Definition drop_cols (cols : list Z) (s : list Z) : list Z :=
  flat_map (fun i => if zmem i cols then [] else ssub s i (i + 1)) (zrange 0 (zlen s)).

(** motif column [j] of width [m]: the characters of all rows in columns [j*m, (j+1)*m) *)
Definition motif_col (m : Z) (a : salign) (j : Z) : list Z :=
  flat_map (fun s => ssub s (j * m) ((j + 1) * m)) (srows a).

Definition s_count_in (set : list Z) (l : list Z) : Z := zlen (filter (fun c => zmem c set) l).

Definition s_eval_pred (p : pred) (col : list Z) : bool :=
  match p with
  | PAllowed chars => forallb (fun c => zmem c chars) col
  | PGapFrac gaps num den => s_count_in gaps col * den <=? num * zlen col
  end.

(** indices of the kept motif columns *)
Definition kept_motifs (p : pred) (m : Z) (a : salign) : list Z :=
  filter (fun j => s_eval_pred p (motif_col m a j)) (zrange 0 (slen a / m)).

Definition take_motifs (m : Z) (js : list Z) (s : list Z) : list Z :=
  flat_map (fun j => ssub s (j * m) ((j + 1) * m)) js.

Definition find_row (n : name) (a : salign) : option (list Z) :=
  match filter (fun nr => name_eqb (fst nr) n) a with (_, s) :: _ => Some s | [] => None end.

(** [a + b]: rows paired by NAME, in the order of the left operand; a name the
    right operand lacks is an error *)
Definition s_add_named (a b : salign) : res salign :=
  mapM (fun nr => match find_row (fst nr) b with
                  | Some t => Ok (fst nr, snd nr ++ t)
                  | None => Err E_Value
                  end) a.

Definition nongap_cols (s : list Z) : list Z :=
  filter (fun i => negb (znth 0 s i =? GAPC)) (zrange 0 (zlen s)).

Fixpoint zip_app (a : salign) (b : list (list Z)) : salign :=
  match a, b with
  | (n, s) :: a', t :: b' => (n, s ++ t) :: zip_app a' b'
  | _, _ => []
  end.

Definition t2u_str (s : list Z) : list Z := map t2u s.
Definition u2t_str (s : list Z) : list Z := map u2t s.

Definition nucleic_kind (k : kind) : bool := match k with KOther => false | _ => true end.

(** number of windows yielded by [sliding_windows(window, step)] on [n] columns *)
Definition s_n_windows (n window step : Z) : Z :=
  let e := n - window + 1 in if 0 <? e then cdiv e step else 0.

(** the string-level meaning of one operation on an alignment of moltype [k].
    [Err E_None]: the method returns [None] (nothing kept / no such window);
    other [Err]: Python's own exception for that string operation. *)
Definition spec_apply (k : kind) (a : salign) (o : aop) : res (kind * salign) :=
  let n := slen a in
  match o with
  | OSlice x y => Ok (k, map_rows (fun s => py_slice s x y 1) a)
  | OSliceStep x y c =>
      if c =? 0 then Err E_Value else Ok (k, map_rows (fun s => py_slice s x y c) a)
  | OIndex i =>
      if (i <? - n) || (i >=? n) then Err E_Index
      else let j := if i <? 0 then i + n else i in Ok (k, map_rows (fun s => ssub s j (j + 1)) a)
  | ORc => if nucleic_kind k then Ok (k, map_rows (rc_str k) a) else Err E_Type
  | OAddSelf => Ok (k, map_rows (fun s => s ++ s) a)
  | OAddRows other =>
      if negb (zlen a =? zlen other) then Err E_Value
      else bind (s_add_named a other) (fun r => Ok (k, r))
  | OAddSlices x y x' y' =>
      Ok (k, map_rows (fun s => py_slice s (Some x) (Some y) 1 ++ py_slice s (Some x') (Some y') 1) a)
  | OTakePos cols negate =>
      if negate then Ok (k, map_rows (drop_cols cols) a)
      else if existsb (fun i => (i <? - n) || (i >=? n)) cols then Err E_Index
      else let cols := map (fun i => if i <? 0 then i + n else i) cols in
           Ok (k, map_rows (take_cols cols) a)
  | OTakeSeqs arg negate =>
      let names := norm_names arg in       (* one name given as a plain string means that one name *)
      if negate then
        match filter (fun nr => negb (nmem (fst nr) names)) a with
        | [] => Err E_None
        | r => Ok (k, r)
        end
      else if forallb (fun x => match find_row x a with Some _ => true | None => false end) names
      then match names with
           | [] => Err E_None
           | _ => Ok (k, flat_map (fun x => match find_row x a with Some s => [(x, s)] | None => [] end) names)
           end
      else Err E_Key
  | OFilter p m =>
      if m <=? 0 then Err E_Value
      else match kept_motifs p m a with
           | [] => Err E_None
           | js => Ok (k, map_rows (take_motifs m js) a)
           end
  | ODegapRel x =>
      match find_row x a with
      | None => Err E_Value
      | Some ref => Ok (k, map_rows (take_cols (nongap_cols ref)) a)
      end
  | OSample locs m => Ok (k, map_rows (take_motifs m locs) a)
  | OToRna => match k with
              | KDna => Ok (KRna, map_rows t2u_str a)
              | KRna => Ok (KRna, a)
              | KOther => Err E_Type
              end
  | OToDna => match k with
              | KRna => Ok (KDna, map_rows u2t_str a)
              | KDna => Ok (KDna, a)
              | KOther => Err E_Type
              end
  | OToType => Ok (k, a)
  | OWindow w st i =>
      if (0 <=? i) && (i <? s_n_windows n w st) && (0 <? w) && (0 <? st)
      then Ok (k, map_rows (fun s => ssub s (i * st) (i * st + w)) a)
      else Err E_None
  | ORename mp => Ok (k, map (fun nr => (rename_of mp (fst nr), snd nr)) a)
  end.

(** a failing operation leaves the alignment as it was *)
Definition spec_keep (st : kind * salign) (o : aop) : kind * salign :=
  match spec_apply (fst st) (snd st) o with Ok st' => st' | Err _ => st end.

Definition spec_run (ops : list aop) (st : kind * salign) : kind * salign := fold_left spec_keep ops st.

(** ** "no character is altered other than by complementing or the T/U exchange":
    every character of a result row is [f x] for a character [x] of an input
    row or of the added rows, [f] one of the three maps (or the identity) *)
Definition derived (k : kind) (x y : Z) : Prop :=
  y = x \/ y = comp k x \/ y = t2u x \/ y = u2t x.

(** ** what a row of the annotatable class denotes (the abstraction function)

    [abs] (Spec/IndelMapSpec.v) reads the map as a gap mask, [realise]
    (Model/View.v) is the displayed sequence; the row denotes the mask filled
    with the residues.  [RowWF] is the class invariant: a well-formed map, a
    well-formed view, and as many residues in the map as the sequence displays. *)
From CG3 Require Import Spec.IndelMapSpec Spec.ViewSpec.

Definition row_str (r : arow) : list Z := fill (abs (amap r)) (realise (adata r)).

Definition RowWF (r : arow) : Prop :=
  IndelMapSpec.WF (amap r) /\ SWF (adata r) /\ parent_length (amap r) = zlen (realise (adata r)).

Definition astr (a : oalign) : salign := map (fun nr => (fst nr, row_str (snd nr))) a.

(** the alignment invariant: every row well formed, one moltype, rows equally long, names distinct *)
Definition AlnWF (a : oalign) : Prop :=
  a <> [] /\ Forall (fun nr => RowWF (snd nr) /\ skind (adata (snd nr)) = al_kind a) a /\ rect (astr a) /\
  NoDup (map fst a).

(** ** read-only methods as functions of the named gapped strings *)
Definition s_names (a : salign) : list name := map fst a.
Definition s_get_gapped_seq (a : salign) (n : name) : option (list Z) := find_row n a.
(** column [j] *)
Definition s_positions (a : salign) : list (list Z) :=
  map (fun j => flat_map (fun s => ssub s j (j + 1)) (srows a)) (zrange 0 (slen a)).
Definition s_gap_array (a : salign) : list (list bool) := map (fun nr => map is_gapch (snd nr)) a.
(** number of rows with a gap character in column [j] *)
Definition s_count_gaps_per_pos (a : salign) : list Z :=
  map (fun j => zlen (filter (fun s => is_gapch (znth 0 s j)) (srows a))) (zrange 0 (slen a)).
(** the ungapped sequences *)
Definition s_degap (a : salign) : salign := map_rows (filter (fun c => negb (is_gapch c))) a.

(** number of gap characters of each row *)
Definition s_count_gaps_per_seq (a : salign) : list Z := map (fun nr => zlen (filter is_gapch (snd nr))) a.
(** columns holding more than one distinct character *)
Definition s_variable_positions (a : salign) : list Z :=
  map fst (filter (fun pc => 1 <? n_distinct (snd pc)) (combine (zrange 0 (slen a)) (s_positions a))).
(** number of canonical characters of each row *)
Definition s_get_lengths (canon : list Z) (a : salign) : list (name * Z) :=
  map (fun nr => (fst nr, s_count_in canon (snd nr))) a.
