(** C18 — specification of pairwise alignment, independent of the dynamic
    programme: what an alignment path is, what its score is, what the gapped
    rows of a path are, and what "star merge keeps each pairwise alignment"
    means (projection of two rows of a multiple alignment). *)
From CG3 Require Import Lib.PyZ Lib.Val Lib.MaxPlus Model.PairAlign.

(** ------------------------------------------------------------------ scores *)

Definition prev_of (q : list st) : st := match q with [] => SB | s :: _ => s end.

(** local alignment may only be entered through the match state
    ([if local and dx and dy: cumulative_score = T[BEGIN, state]]) *)
Definition ttr (P : params) (local : bool) (p s : st) : ez :=
  if local && st_eqb p SB && negb (st_eqb s SM) then None else tr P p s.

(** score of the path [q] (LAST state first) over the residues [rx], [ry]
    (LAST residue first), without the transition to END: the sum of the
    emission scores and of the transition scores between consecutive states,
    starting from BEGIN.  A path that does not consume exactly [rx] and [ry]
    has score -inf ([None]); in local mode the path may start anywhere, i.e. it
    has to consume a suffix of the (reversed) prefixes. *)
Fixpoint rscore (P : params) (local : bool) (q : list st) (rx ry : list Z) : ez :=
  match q with
  | [] => if local then Some 0 else match rx, ry with [], [] => Some 0 | _, _ => None end
  | s :: q' =>
      match s with
      | SM => match rx, ry with
              | a :: rx', b :: ry' => eplus (em P a b) (eplus (ttr P local (prev_of q') SM) (rscore P local q' rx' ry'))
              | _, _ => None end
      | SX => match rx with
              | a :: rx' => eplus (gx P a) (eplus (ttr P local (prev_of q') SX) (rscore P local q' rx' ry))
              | _ => None end
      | SY => match ry with
              | b :: ry' => eplus (gy P b) (eplus (ttr P local (prev_of q') SY) (rscore P local q' rx ry'))
              | _ => None end
      | SB => None
      end
  end.

(** score of a complete global alignment path, transition to END included *)
Definition gscore (P : params) (q : list st) (rx ry : list Z) : ez :=
  eplus (te P (prev_of q)) (rscore P false q rx ry).

(** ------------------------------------------------------------------ validity *)

(** a path fits a pair of sequences when it consumes exactly their residues *)
Definition fits (p : list st) (xs ys : list Z) : Prop :=
  count_x p = length xs /\ count_y p = length ys /\ ~ In SB p.

Definition degap (r : list Z) : list Z := filter (fun a => negb (a =? GAP)) r.

Definition state_of_col (a b : Z) : st :=
  if a =? GAP then (if b =? GAP then SB else SY) else if b =? GAP then SX else SM.

Fixpoint path_of_rows (r1 r2 : list Z) : list st :=
  match r1, r2 with
  | a :: r1', b :: r2' => state_of_col a b :: path_of_rows r1' r2'
  | _, _ => []
  end.

(** what the property asks of a pair of gapped rows *)
Definition valid_rows (r1 r2 xs ys : list Z) : Prop :=
  length r1 = length r2 /\ degap r1 = xs /\ degap r2 = ys /\ ~ In SB (path_of_rows r1 r2).

(** ------------------------------------------------------------------ star merge *)

(** the pairwise alignment a multiple alignment induces on two of its rows:
    drop the columns in which both are gaps *)
Fixpoint project (r1 r2 : list Z) : list Z * list Z :=
  match r1, r2 with
  | a :: r1', b :: r2' =>
      let '(p1, p2) := project r1' r2' in
      if (a =? GAP) && (b =? GAP) then (p1, p2) else (a :: p1, b :: p2)
  | _, _ => ([], [])
  end.
