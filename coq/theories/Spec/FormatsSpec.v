(** C06 — specification side: the plain mathematical object is a list of records
    (name, sequence); a format round-trips when parsing the written text gives the
    list back.  The boolean predicates say what each format can represent. *)
From CG3 Require Import Lib.PyZ Lib.Chars Model.Formats.

(** the identity the property demands: records in = records out *)
Definition records_of (recs : list (str * list str)) : list rec :=
  map (fun r => (fst r, concat (snd r))) recs.

(** a name every line-oriented format can carry: no line-boundary character and no white
    space at either end, i.e. nothing [str.strip] would remove (inner blanks, '>', '#', '%' allowed) *)
Definition ends_ok (n : str) : bool :=
  match n with [] => true | c :: _ => negb (is_space c) end &&
  match rev n with [] => true | c :: _ => negb (is_space c) end.

Definition ok_name (n : str) : bool :=
  forallb (fun c => negb (is_brk c)) n && ends_ok n.

(** a residue character: not white space (hence not a line boundary), none of the label /
    comment characters, and unchanged by upper-casing *)
Definition ok_res (c : Z) : bool :=
  negb (is_space c) && negb (c =? GT) && negb (c =? HASH) && negb (c =? PCT) && (ascii_upper_ch c =? c).

(** a line of sequence as the writers emit it: non-empty, residues only *)
Definition ok_line (l : str) : bool :=
  match l with [] => false | _ => forallb ok_res l end.

(** a FASTA record as written: representable name, at least one line of sequence
    (an empty sequence cannot be carried by the line-based parsers) *)
Definition ok_frec (r : str * list str) : bool :=
  ok_name (fst r) && match snd r with [] => false | _ => forallb ok_line (snd r) end.

(** additional demand of the bytes-based FASTA parser: no '>' inside a name, ASCII name *)
Definition no_gt (n : str) : bool := forallb (fun c => negb (c =? GT)) n.

(** a sequence for the block formats: non-empty, residues only *)
Definition ok_seq (s : str) : bool :=
  match s with [] => false | _ => forallb ok_res s end.

(** the documented PHYLIP truncation *)
Definition phylip_name (n : str) : str := firstn 9 n.

(** a record (name, sequence) the block formats can carry *)
Definition ok_rec (r : rec) : bool := ok_name (fst r) && ok_seq (snd r).

(** PAML / PHYLIP: an alignment — non-empty names, all sequences of the length of the first *)
Definition ok_arec (len : nat) (r : rec) : bool :=
  ok_rec r && negb (match fst r with [] => true | _ => false end) && Nat.eqb (length (snd r)) len.

(** PHYLIP additionally needs the 9-character truncation of the name to be a representable name *)
Definition ok_prec (len : nat) (r : rec) : bool := ok_arec len r && ok_name (phylip_name (fst r)).
Definition phylip_expected (recs : list rec) : list rec := map (fun r => (phylip_name (fst r), snd r)) recs.

(* ------------------------------------------------------------------ well-formed FASTA text in general *)

(** a plain character of a text file: ASCII, not a line boundary and not one of the exotic white-space
    characters — its only white space is TAB and SPACE *)
Definition plain (c : Z) : bool := (0 <=? c) && (c <? 128) && negb (is_brk c) && negb (c =? 31).

Definition nonempty (l : str) : bool := match l with [] => false | _ => true end.

(** a line below a label: plain characters (blanks and tabs anywhere, the line may be empty or blank),
    upper case, not starting with '>' or '#' *)
Definition wf_line (l : str) : bool :=
  forallb plain l && forallb (fun c => ascii_upper_ch c =? c) l &&
  match l with c :: _ => negb (c =? GT) && negb (c =? HASH) | [] => true end.

(** a record of a well-formed FASTA text: ANY plain label (blanks at either end, '>' inside allowed) followed by
    lines of which at least one is not empty *)
Definition wf_frec (r : str * list str) : bool :=
  forallb plain (fst r) && forallb wf_line (snd r) && existsb nonempty (snd r).

(** what a FASTA reader must return: the label without surrounding blanks, the residues without white space *)
Definition gen_records (recs : list (str * list str)) : list rec :=
  map (fun r => (strip (fst r), remove_ws (concat (snd r)))) recs.
