(** C06 — specification side: the plain mathematical object is a list of records
    (name, sequence); a format round-trips when parsing the written text gives the
    list back.  The boolean predicates say what each format can represent. *)
From CG3 Require Import Lib.PyZ Lib.Chars Model.Formats.

(** the identity the property demands: records in = records out *)
Definition records_of (recs : list (str * list str)) : list rec :=
  map (fun r => (fst r, concat (snd r))) recs.

(** a name every line-oriented format can carry: no line-boundary character and
    nothing [str.strip] would remove at either end (inner blanks, '>', '#', '%' allowed) *)
Definition ok_name (n : str) : bool :=
  forallb (fun c => negb (is_brk c)) n && str_eqb (strip n) n.

(** a residue character: not white space (hence not a line boundary), none of the label /
    comment characters, and unchanged by upper-casing *)
Definition ok_res (c : Z) : bool :=
  negb (is_space c) && negb (c =? GT) && negb (c =? HASH) && negb (c =? PCT) && (ascii_upper_ch c =? c).

(** a line of sequence as the writers emit it: non-empty, residues only *)
Definition ok_line (l : str) : bool :=
  match l with [] => false | _ => forallb ok_res l end.

(** a FASTA record as written: representable name, at least one line of sequence
    (an empty sequence cannot be carried by the line-based parsers) *)
Definition ok_frec (r : str * list str) : bool :=
  ok_name (fst r) && match snd r with [] => false | _ => forallb ok_line (snd r) end.

(** additional demand of the bytes-based FASTA parser: no '>' inside a name, ASCII name *)
Definition no_gt (n : str) : bool := forallb (fun c => negb (c =? GT)) n.

(** a sequence for the block formats: non-empty, residues only *)
Definition ok_seq (s : str) : bool :=
  match s with [] => false | _ => forallb ok_res s end.

(** the documented PHYLIP truncation *)
Definition phylip_name (n : str) : str := firstn 9 n.
