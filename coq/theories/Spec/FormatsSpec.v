(** C06 — specification side: the plain mathematical object is a list of records
    (name, sequence); a format round-trips when parsing the written text gives the
    list back.  The boolean predicates say what each format can represent. *)
From CG3 Require Import Lib.PyZ Lib.Chars Model.Formats.

(** the identity the property demands: records in = records out *)
Definition records_of (recs : list (str * list str)) : list rec :=
  map (fun r => (fst r, concat (snd r))) recs.

(** a name every line-oriented format can carry: no line-boundary character and no white
    space at either end, i.e. nothing [str.strip] would remove (inner blanks, '>', '#', '%' allowed) *)
Definition ends_ok (n : str) : bool :=
  match n with [] => true | c :: _ => negb (is_space c) end &&
  match rev n with [] => true | c :: _ => negb (is_space c) end.

Definition ok_name (n : str) : bool :=
  forallb (fun c => negb (is_brk c)) n && ends_ok n.

(** a residue character: not white space (hence not a line boundary), none of the label /
    comment characters, and unchanged by upper-casing *)
Definition ok_res (c : Z) : bool :=
  negb (is_space c) && negb (c =? GT) && negb (c =? HASH) && negb (c =? PCT) && (ascii_upper_ch c =? c).

(** a line of sequence as the writers emit it: non-empty, residues only *)
Definition ok_line (l : str) : bool :=
  match l with [] => false | _ => forallb ok_res l end.

(** a FASTA record as written: representable name, at least one line of sequence
    (an empty sequence cannot be carried by the line-based parsers) *)
Definition ok_frec (r : str * list str) : bool :=
  ok_name (fst r) && match snd r with [] => false | _ => forallb ok_line (snd r) end.

(** additional demand of the bytes-based FASTA parser: no '>' inside a name, ASCII name *)
Definition no_gt (n : str) : bool := forallb (fun c => negb (c =? GT)) n.

(** a sequence for the block formats: non-empty, residues only *)
Definition ok_seq (s : str) : bool :=
  match s with [] => false | _ => forallb ok_res s end.

(** the documented PHYLIP truncation *)
Definition phylip_name (n : str) : str := firstn 9 n.

(** a record (name, sequence) the block formats can carry *)
Definition ok_rec (r : rec) : bool := ok_name (fst r) && ok_seq (snd r).

(** PAML / PHYLIP: an alignment — non-empty names, all sequences of the length of the first *)
Definition ok_arec (len : nat) (r : rec) : bool :=
  ok_rec r && negb (match fst r with [] => true | _ => false end) && Nat.eqb (length (snd r)) len.

(** PHYLIP additionally needs the 9-character truncation of the name to be a representable name *)
Definition ok_prec (len : nat) (r : rec) : bool := ok_arec len r && ok_name (phylip_name (fst r)).
Definition phylip_expected (recs : list rec) : list rec := map (fun r => (phylip_name (fst r), snd r)) recs.

(* ------------------------------------------------------------------ well-formed FASTA text in general *)

(** a plain character of a text file: ASCII, not a line boundary and not one of the exotic white-space
    characters — its only white space is TAB and SPACE *)
Definition plain (c : Z) : bool := (0 <=? c) && (c <? 128) && negb (is_brk c) && negb (c =? 31).

Definition nonempty (l : str) : bool := match l with [] => false | _ => true end.

(** a line below a label: plain characters (blanks and tabs anywhere, the line may be empty or blank),
    upper case, not starting with '>' or '#' *)
Definition wf_line (l : str) : bool :=
  forallb plain l && forallb (fun c => ascii_upper_ch c =? c) l &&
  match l with c :: _ => negb (c =? GT) && negb (c =? HASH) | [] => true end.

(** a record of a well-formed FASTA text: ANY plain label (blanks at either end, '>' inside allowed) followed by
    lines of which at least one is not empty *)
Definition wf_frec (r : str * list str) : bool :=
  forallb plain (fst r) && forallb wf_line (snd r) && existsb nonempty (snd r).

(** what a FASTA reader must return: the label without surrounding blanks, the residues without white space *)
Definition gen_records (recs : list (str * list str)) : list rec :=
  map (fun r => (strip (fst r), remove_ws (concat (snd r)))) recs.

(* ------------------------------------------------------------------ GenBank flat files *)

(** a record of a GenBank flat file: LOCUS name and length field, one-line fields, the lines of the ORIGIN block
    (ANY numbering and grouping: blanks, digits and lower-case residues) *)
Record gbx := { x_name : str; x_len : nat; x_extra : list str; x_olines : list str }.

Definition gbx_lines (r : gbx) : list str :=
  gb_locus_of (x_name r) (x_len r) :: x_extra r ++ s_origin :: x_olines r ++ [s_double_slash].
Definition gbx_write (recs : list gbx) : str := join_lines (flat_map gbx_lines recs).

Definition is_lower_letter (c : Z) : bool := (97 <=? c) && (c <=? 122).
Definition is_digit (c : Z) : bool := (48 <=? c) && (c <=? 57).
Definition residues (l : str) : str := filter is_lower_letter l.

(** a LOCUS name: one token of plain characters *)
Definition gb_token (n : str) : bool := nonempty n && forallb (fun c => plain c && negb (is_space c)) n.

Definition safe_label (w : str) : bool :=
  negb (str_eqb w s_locus || str_eqb w s_origin || str_eqb w s_double_slash || str_eqb w [63]
        || str_eqb w s_source || str_eqb w s_reference || str_eqb w s_features)
  && negb (str_eqb (ascii_lower w) s_locus_lc || str_eqb (ascii_lower w) s_sequence_lc).

(** a one-line field between LOCUS and ORIGIN: starts in column 1, no trailing blank, its label is none of the
    words with a dedicated handler, and it does not begin with "ORIGIN" or "//" *)
Definition ok_gb_extra (l : str) : bool :=
  forallb plain l
  && match l with c :: _ => negb (is_space c) | [] => false end
  && match rev l with c :: _ => negb (is_space c) | [] => false end
  && negb (startswith l s_origin) && negb (startswith l s_double_slash)
  && match split_ws l with w :: _ => safe_label w | [] => false end.

(** a line of the ORIGIN block: starts with a blank, consists of blanks, digits and lower-case residues, ends
    with a residue *)
Definition ok_oline (l : str) : bool :=
  match l with c :: _ => c =? SP | [] => false end
  && forallb (fun c => (c =? SP) || is_digit c || is_lower_letter c) l
  && match rev l with c :: _ => is_lower_letter c | [] => false end.

Definition ok_gbx (r : gbx) : bool :=
  gb_token (x_name r) && forallb ok_gb_extra (x_extra r)
  && match x_olines r with [] => false | _ => true end && forallb ok_oline (x_olines r).

Definition gbx_seq (r : gbx) : str := concat (map residues (x_olines r)).
Definition gbx_expected (recs : list gbx) : list (option str * option str) :=
  map (fun r => (Some (x_name r), Some (gbx_seq r))) recs.
Definition gbx_expected_upper (recs : list gbx) : list (option str * option str) :=
  map (fun r => (Some (x_name r), Some (ascii_upper (gbx_seq r)))) recs.

(** the standard layout (numbered lines of 6 groups of 10) as an instance *)
Definition gbx_of (r : gb_rec) : gbx :=
  {| x_name := gb_name r; x_len := length (gb_seq r); x_extra := gb_extra r;
     x_olines := gb_origin_lines (S (length (gb_seq r))) 1 (gb_seq r) |}.
