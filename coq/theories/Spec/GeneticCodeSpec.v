(** C12 — specification, stated on the plain objects the property names: the NCBI
    genetic-code tables as NCBI publishes them (a 64-character amino-acid line under three
    64-character Base1/Base2/Base3 lines), Watson-Crick complement, IUPAC symbols as sets of
    bases.  Independent of the model: no k-mer arithmetic, no converter tables. *)
From CG3 Require Import Lib.PyZ.
From CG3gen Require Import GCTables.

(** T C A G (DNA) *)
Definition bases : list Z := [84; 67; 65; 71].
Definition canonical (c : Z) : Prop := In c bases.
Definition canonicalb (c : Z) : bool := existsb (Z.eqb c) bases.

(** consecutive triples; an incomplete tail is not translated *)
Fixpoint codons (s : list Z) : list (list Z) :=
  match s with
  | a :: b :: c :: r => [a; b; c] :: codons r
  | _ => []
  end.

(** the amino acid NCBI's table [tbl] gives for codon (a,b,c): the character of the
    amino-acid line in the column whose Base1/Base2/Base3 characters are a, b, c *)
Fixpoint ncbi_column (b1 b2 b3 tbl : list Z) (a b c : Z) : option Z :=
  match b1, b2, b3, tbl with
  | x :: b1', y :: b2', z :: b3', t :: tbl' =>
      if (x =? a) && (y =? b) && (z =? c) then Some t else ncbi_column b1' b2' b3' tbl' a b c
  | _, _, _, _ => None
  end.

Definition spec_lookup (tbl : list Z) (w : list Z) : Z :=
  match w with
  | [a; b; c] =>
      match ncbi_column ncbi_base1 ncbi_base2 ncbi_base3 tbl a b c with
      | Some t => t
      | None => 88
      end
  | _ => 88
  end.

(** translation, codon by codon *)
Definition translate_spec (tbl : list Z) (s : list Z) : list Z := map (spec_lookup tbl) (codons s).

(** the NCBI table with a given id ([] if there is none) *)
Definition ncbi_tbl (id : Z) : list Z :=
  match find (fun e : Z * list Z * list Z => fst (fst e) =? id) ncbi_codes with
  | Some e => snd (fst e)
  | None => []
  end.

(** Watson-Crick complement of a base (DNA and RNA letters); other symbols unchanged *)
Definition comp_base_dna (c : Z) : Z :=
  if c =? 65 then 84 else if c =? 84 then 65 else if c =? 67 then 71 else if c =? 71 then 67 else c.
Definition comp_base_rna (c : Z) : Z :=
  if c =? 65 then 85 else if c =? 85 then 65 else if c =? 67 then 71 else if c =? 71 then 67 else c.
Definition rc_spec (s : list Z) : list Z := rev (map comp_base_dna s).

(** translation of frame [start] of the plus strand / of the minus strand *)
Definition frame_plus (tbl s : list Z) (start : nat) : list Z := translate_spec tbl (skipn start s).
Definition frame_minus (tbl s : list Z) (start : nat) : list Z := translate_spec tbl (skipn start (rc_spec s)).
Definition six_frames_spec (tbl s : list Z) : list (list Z) :=
  map (frame_plus tbl s) [0; 1; 2]%nat ++ map (frame_minus tbl s) [0; 1; 2]%nat.

(* ------------------------------------------------------------------ stop handling *)

Definition star : Z := 42.
Definition ends_with_stop (p : list Z) : bool :=
  match rev p with x :: _ => x =? star | [] => false end.
Definition has_stop (p : list Z) : bool := existsb (Z.eqb star) p.

(** What a translation request means for a canonical sequence [s]:
    - trimming asked for: a sequence whose length is not a multiple of 3 is rejected unless
      incomplete codons are allowed; a terminal stop codon (last complete codon of a
      sequence of length 0 mod 3) is removed;
    - stops not allowed: any remaining stop codon makes the request fail;
    - otherwise the codon-by-codon translation.
    [None] = rejected.  [pad] is what an alignment puts in place of the trimmed codon. *)
Definition stop_spec_gen (pad : list Z) (tbl : list Z) (trim include_stop incomplete_ok : bool) (s : list Z)
  : option (list Z) :=
  let p := translate_spec tbl s in
  let in_frame := zlen s mod 3 =? 0 in
  if trim && negb in_frame && negb incomplete_ok then None
  else
    let p' := if trim && in_frame && ends_with_stop p then removelast p ++ pad else p in
    if negb include_stop && has_stop p' then None else Some p'.

Definition stop_spec := stop_spec_gen [].
Definition stop_spec_aln := stop_spec_gen [45].

(** the two option combinations are contradictory when both [include_stop] and [trim_stop]
    are set; the old implementation documents "include_stop wins", the new one trims *)
Definition eff_trim_old (include_stop trim_stop : bool) : bool := trim_stop && negb include_stop.
Definition eff_trim_new (include_stop trim_stop : bool) : bool := trim_stop.

(* ------------------------------------------------------------------ IUPAC symbols *)

(** the IUPAC nucleotide code (NC-IUB 1984) as sets of bases, DNA letters, sorted *)
Definition iupac_dna : list (Z * list Z) :=
  [ (65, [65]); (67, [67]); (71, [71]); (84, [84]);
    (82, [65; 71]); (89, [67; 84]); (83, [67; 71]); (87, [65; 84]); (75, [71; 84]); (77, [65; 67]);
    (66, [67; 71; 84]); (68, [65; 71; 84]); (72, [65; 67; 84]); (86, [65; 67; 71]);
    (78, [65; 67; 71; 84]) ].
Definition t2u (c : Z) : Z := if c =? 84 then 85 else c.
Definition iupac_rna : list (Z * list Z) := map (fun kv => (t2u (fst kv), map t2u (snd kv))) iupac_dna.

Fixpoint insert_sorted (x : Z) (l : list Z) : list Z :=
  match l with
  | [] => [x]
  | y :: r => if x <? y then x :: l else if x =? y then l else y :: insert_sorted x r
  end.
(** a list as a set: sorted, duplicate-free *)
Definition as_set (l : list Z) : list Z := fold_right insert_sorted [] l.

(* ------------------------------------------------------------------ collections and alignments *)

(** a collection is translated row by row; the request fails as a whole when one row is rejected;
    order and number of rows are those of the input *)
Fixpoint all_or_none {A} (l : list (option A)) : option (list A) :=
  match l with
  | [] => Some []
  | None :: _ => None
  | Some a :: r => match all_or_none r with Some r' => Some (a :: r') | None => None end
  end.
Definition collection_spec (tbl : list Z) (trim include_stop incomplete_ok : bool) (seqs : list (list Z))
  : option (list (list Z)) :=
  all_or_none (map (stop_spec tbl trim include_stop incomplete_ok) seqs).

(** alignment rows as lists of aligned triplets: a codon of bases or the gap triplet "---" *)
Definition gap_triplet : list Z := [45; 45; 45].
Definition is_gap_triplet (w : list Z) : bool :=
  match w with [a; b; c] => (a =? 45) && (b =? 45) && (c =? 45) | _ => false end.
Definition triplet_ok (w : list Z) : Prop :=
  w = gap_triplet \/ exists a b c, w = [a; b; c] /\ canonical a /\ canonical b /\ canonical c.
(** the residue a triplet translates to: "-" for the gap triplet *)
Definition triplet_aa (tbl : list Z) (w : list Z) : Z := if is_gap_triplet w then 45 else spec_lookup tbl w.
Definition is_stop_triplet (tbl : list Z) (w : list Z) : bool :=
  negb (is_gap_triplet w) && (spec_lookup tbl w =? star).
(** trimming in an alignment keeps the row length: the LAST residue codon of a row, if it is a stop
    codon, becomes the gap triplet *)
Fixpoint trim_row (tbl : list Z) (ws : list (list Z)) : list (list Z) :=
  match ws with
  | [] => []
  | w :: r => if forallb is_gap_triplet r && is_stop_triplet tbl w then gap_triplet :: r else w :: trim_row tbl r
  end.
Definition aln_row_spec (tbl : list Z) (trim include_stop : bool) (ws : list (list Z)) : option (list Z) :=
  let p := map (triplet_aa tbl) (if trim then trim_row tbl ws else ws) in
  if negb include_stop && has_stop p then None else Some p.
Definition alignment_spec (tbl : list Z) (trim include_stop : bool) (rows : list (list (list Z)))
  : option (list (list Z)) :=
  all_or_none (map (aln_row_spec tbl trim include_stop) rows).
(** the residues of a row: its non-gap triplets, concatenated *)
Definition row_residues (ws : list (list Z)) : list Z := concat (filter (fun w => negb (is_gap_triplet w)) ws).

(* ------------------------------------------------------------------ degenerate codons *)

(** the IUPAC amino-acid ambiguity codes: B = {D, N}, Z = {E, Q}, X = any other set of several
    residues (with "*" among them when stop codons are allowed) *)
Definition aa_symbol_of_set (set : list Z) : Z :=
  match set with
  | [x] => x
  | [68; 78] => 66
  | [69; 81] => 90
  | _ => 88
  end.
Fixpoint iupac_lookup (c : Z) (l : list (Z * list Z)) : option (list Z) :=
  match l with [] => None | (k, v) :: r => if k =? c then Some v else iupac_lookup c r end.
Fixpoint symbol_sets (w : list Z) : option (list (list Z)) :=
  match w with
  | [] => Some []
  | c :: r => match iupac_lookup c iupac_dna, symbol_sets r with
              | Some s, Some t => Some (s :: t)
              | _, _ => None
              end
  end.
Fixpoint words_of (sets : list (list Z)) : list (list Z) :=
  match sets with
  | [] => [[]]
  | s :: r => flat_map (fun c => map (cons c) (words_of r)) s
  end.
(** what a codon of IUPAC nucleotide symbols translates to (old-style Sequence.get_translation):
    the set of residues of ALL the codons of bases it stands for -- stop codons left out unless
    they are allowed --, encoded as one amino-acid symbol; rejected when nothing is left *)
Definition degenerate_codon_spec (tbl : list Z) (include_stop : bool) (w : list Z) : option Z :=
  match symbol_sets w with
  | None => None
  | Some sets =>
      let residues := as_set (filter (fun x => include_stop || negb (x =? star))
                                     (map (spec_lookup tbl) (words_of sets))) in
      match residues with [] => None | _ => Some (aa_symbol_of_set residues) end
  end.
(** a triplet holding "-" next to nucleotide symbols: "?" if incomplete codons are accepted *)
Definition partial_gap_spec (incomplete_ok : bool) : option Z := if incomplete_ok then Some 63 else None.
