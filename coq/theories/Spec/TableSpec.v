(** Specification of the Table operations on the plain mathematical object the
    property names: a header (list of column names) and a LIST OF ROWS, with
    list comprehensions ([map] / [filter] / [flat_map]) and, for sorting, the
    stable sort by the key tuple.  Nothing here mentions columns-as-arrays,
    index selection, hashing or character translation.

    [rows t] / [hdr t] are the observation of a model table (what
    [Table.to_list()] / [Table.header] return). *)
From Coq Require Import Permutation Sorting.Sorted.
From CG3 Require Import Lib.PyZ Lib.Chars Lib.StableSort Model.Csv Model.Table Model.TableLoad.
Import ListNotations.

(* ------------------------------------------------------------------ observation, well-formedness *)

Definition rows (t : table) : list (list cell) := array t.

(* a rectangular column store with distinct names *)
Definition wf (t : table) : Prop :=
  length (hdr t) = length (cols t) /\
  Forall (fun c => length c = nrows t) (cols t) /\
  NoDup (hdr t).

(* position of a column name in a header (0 when absent: never used on absent names) *)
Fixpoint pos (c : str) (h : list str) : nat :=
  match h with
  | [] => 0
  | x :: h' => if str_eqb c x then 0 else S (pos c h')
  end.

(* the cells of [row] under the names [names] : r[names] *)
Definition proj (h : list str) (names : list str) (row : list cell) : list cell :=
  map (fun c => nth (pos c h) row CN) names.

(* ------------------------------------------------------------------ joins *)

(* [ r ++ r'[mask] | r <- a, r' <- b, r[ks] == r'[ko] ]  in that order *)
Definition spec_inner_join (ha : list str) (a : list (list cell)) (hb : list str) (b : list (list cell))
           (ks ko : list str) : list (list cell) :=
  let mask := filter (fun c => negb (mem_str c ko)) hb in
  flat_map (fun r =>
    flat_map (fun r' => if key_eqb (proj ha ks r) (proj hb ko r') then [r ++ proj hb mask r'] else []) b) a.

Definition spec_join_header (ha hb ko : list str) (prefix : str) : list str :=
  ha ++ map (fun c => prefix ++ c) (filter (fun c => negb (mem_str c ko)) hb).

(* [ r ++ r' | r <- a, r' <- b ] *)
Definition spec_cross_join (a b : list (list cell)) : list (list cell) :=
  flat_map (fun r => map (fun r' => r ++ r') b) a.

(* ------------------------------------------------------------------ selection / derivation *)

Definition spec_filtered (h : list str) (a : list (list cell)) (f : list cell -> bool) (names : list str) :=
  filter (fun r => f (proj h names r)) a.

Definition spec_count (h : list str) (a : list (list cell)) (f : list cell -> bool) (names : list str) : Z :=
  Z.of_nat (length (spec_filtered h a f names)).

Definition spec_get_columns (h : list str) (a : list (list cell)) (names : list str) :=
  map (proj h names) a.

Definition spec_with_new_column (h : list str) (a : list (list cell)) (new : str)
           (f : list cell -> cell) (names : list str) :=
  let keep := filter (fun c => negb (str_eqb c new)) h in
  map (fun r => proj h keep r ++ [f (proj h names r)]) a.

(* appended: rows of every table re-ordered to the first header, the title in front *)
Definition spec_appended (h : list str) (titled : list (str * (list str * list (list cell)))) (with_title : bool) :=
  flat_map (fun tt =>
              map (fun r => (if with_title then [CS (fst tt)] else []) ++ proj (fst (snd tt)) h r)
                  (snd (snd tt))) titled.

(* transposed: the selected column becomes the header, every other column a row led by its name *)
Definition spec_transposed_header (h : list str) (a : list (list cell)) (new sah : str) : list str :=
  new :: map (fun r => cell_str (nth (pos sah h) r CN)) a.

Definition spec_transposed (h : list str) (a : list (list cell)) (sah : str) : list (list cell) :=
  map (fun c => CS c :: map (fun r => nth (pos c h) r CN) a)
      (filter (fun c => negb (str_eqb c sah)) h).

(* ------------------------------------------------------------------ sorting *)

(* the order of a plain sort of row tuples: ints by value, strings by code
   point, False < True; a column listed in [rev] is compared the other way round *)
Fixpoint spec_key_cmp (revs : list bool) (a b : list cell) : comparison :=
  match revs, a, b with
  | rv :: revs', x :: a', y :: b' =>
      match (if rv then cell_cmp y x else cell_cmp x y) with
      | Eq => spec_key_cmp revs' a' b'
      | r => r
      end
  | _, _, _ => Eq
  end.

Definition spec_row_leb (h : list str) (columns : list str) (revs : list bool) (r1 r2 : list cell) : bool :=
  match spec_key_cmp revs (proj h columns r1) (proj h columns r2) with Gt => false | _ => true end.

(* sorted(rows, key = columns with per-column reversal): THE stable sort *)
Definition spec_sorted (h : list str) (a : list (list cell)) (columns : list str) (revs : list bool) :=
  isort_by (spec_row_leb h columns revs) a.

(* ------------------------------------------------------------------ sorting: which key columns are reversed *)

Fixpoint count_str (c : str) (l : list str) : nat :=
  match l with
  | [] => 0%nat
  | x :: l' => ((if str_eqb c x then 1 else 0) + count_str c l')%nat
  end.

(* a key column is compared the other way round iff it is listed in [reverse] *)
Definition rev_flags (columns rev : list str) : list bool :=
  map (fun c => Nat.odd (count_str c rev)) columns.

(* a float cell is the decimal m * 10^e its repr shows: no trailing zero in m (0.0 is CF 0 0) *)
Definition dec_normal (c : cell) : Prop :=
  match c with
  | CF m e => (m = 0 -> e = 0) /\ (m <> 0 -> m mod 10 <> 0)
  | _ => True
  end.

Definition dec_normal_col (col : list cell) : Prop := Forall dec_normal col.

(* ------------------------------------------------------------------ delimited text *)

(* cells whose text survives: no carriage return *)
Definition cell_text_okb (c : cell) : bool :=
  match c with CS s => field_okb s | _ => true end.

(* ------------------------------------------------------------------ typed round trip: which tables *)

(* a float cell whose decimal has at most 15 significant digits and a moderate
   exponent (the range in which binary64 reproduces the decimal, DBL_DIG) *)
Definition dec_okb (m e : Z) : bool :=
  ((m =? 0) && (e =? 0) || negb (m =? 0) && negb (m mod 10 =? 0)) && (Z.abs m <? 10 ^ 15) && (-290 <=? e) && (e <=? 290).

(* columns whose cells come back with the same type and value: 64-bit ints,
   such floats, bools, and strings that no reader takes for a number or a
   Python literal ([plain_textb], Model/TableLoad.v: empty, or words of
   letters / digits / '_' / inner spaces starting with a letter, other than
   True / False / None / nan / inf / infinity / j ...) *)
Definition int64_cellb (c : cell) : bool := match c with CI z => (- 2 ^ 63 <=? z) && (z <? 2 ^ 63) | _ => false end.
Definition float_cellb (c : cell) : bool := match c with CF m e => dec_okb m e | _ => false end.
Definition bool_cellb (c : cell) : bool := match c with CB _ => true | _ => false end.
Definition plain_cellb (c : cell) : bool := match c with CS s => plain_textb s | _ => false end.
Definition typed_col_okb (col : list cell) : bool :=
  forallb int64_cellb col || forallb float_cellb col || forallb bool_cellb col || forallb plain_cellb col.
